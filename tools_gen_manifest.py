#!/usr/bin/env python3
"""Regenerates MANIFEST.json from the table below (kept as a script so that the manifest stays valid)."""
import json, os
HERE = os.path.dirname(os.path.abspath(__file__))
T = "explicit TLA+ specification checked with TLC (exhaustive design model) + TLC-generated behaviours replayed on the real code + NDJSON traces of the real code validated by TLC against the trace specification"
checks = {
 "C01": dict(text="TxPath.tla (code-shaped model of QueuePackage/SendRemainingPackets/sendPackets on the packet queue) is checked exhaustively by TLC for body sizes 2..4, all call splits, successive messages and size changes (the pinned algorithm is kept as a negative config that TLC refutes); all behaviours of the small scope are replayed on the real Channel, and traces of the real Channel at every boundary length k*(ps-8)+d (quick: ~60 packet sizes; thorough: every size 256..65535) are validated by TLC against the contract Trace_TxPath.tla.",
             note="Trusted: harness wire parser and content comparison (field clean), TLC. Channel 0 only here (channels>0: C12). Messages in which a call failed are not judged.", ref="§7 C01"),
 "C02": dict(text="RxPath.tla (code-shaped model of WritePacket/tryParsePackage/handleSpecialPackage on the packet queue) is checked exhaustively by TLC for all responses of up to 3 packages, all packetisations and two rounds; TLC-simulated behaviours are concretised and replayed on the real Channel; recorded traces of every 1-cut, sampled 2-cuts, all 2^(n-1) cut sets of short responses and read partitions through the reader goroutine are validated by TLC against Trace_RxPath.tla, whose oracle is the reference run of the same response (one packet, one read).",
             note="Trusted: harness encoder for server packages, reflective field dump as equality of field values, TLC. Judged responses only (see DESIGN.md C02/C03 unspecified region).", ref="§7 C02"),
 "C03": dict(text="Same design model (rounds, synthetic final DONE, no carry-over) checked exhaustively; multi-round sequences on one channel consumed with NextPackage and with NextPackageUntil under scripted callback outcomes (continue/stop/io.EOF/error/nil callback) are recorded and validated by TLC against Trace_RxPath.tla (exactly one final DONE, next response starts clean, callback error drains the response).",
             note="Trusted: as C02. DONEPROC/DONEINPROC with status 0 in mid-response is outside the judged domain (open question).", ref="§7 C03"),
 "C11": dict(text="Same design model (hooks exactly once also under retried parses, special packages never delivered) checked exhaustively; traces with 0..n EED (info / non-info) and ENVCHANGE members of all types at all positions, hooks registered before and between responses, callback failures, direct and through the reader goroutine, are validated by TLC against Trace_RxPath.tla with the C11 constraints enabled (JUDGE=C11).",
             note="Trusted: as C02; hook events are emitted from inside the callbacks (ordering rule R2).", ref="§7 C11"),
 "C14": dict(text="The transport is failed at every byte offset of bounded responses with EOF / reset / timeout style errors under random chunkings; the recorded traces are validated by TLC against Trace_RxPath.tla: deliveries are a prefix of the reference run with equal values, only from completely received packets, no synthetic final DONE before the EOM packet is complete, then an error within the read timeout.",
             note="Trusted: as C02, plus the watchdog classes for 'within the read timeout' (timeout + 4 s). No separate byte-level design model: the packet reader is observed, not modelled.", ref="§7 C14"),
 "C16": dict(text="DecimalText.tla specifies decimal<->text on digit sequences (Fmt, the three-valued parse verdict ParseOK); TLC checks the model-level theorems Parse(Fmt(x))=x and canonical shape for all (p,s) with p<=5 over digits {0,1,9}; every call of the real Decimal (String, NewDecimalString/SetString, Cmp, NewDecimal) made by the driver - boundary values 0, 1, 10^k, 10^k-1 at sampled/all (p,s) up to 38, text variants, random strings - is an event on which TLC evaluates the specification (Trace_Decimal.tla).",
             note="Trusted: digit extraction via big.Int.String in the harness, TLC. Three-valued oracle (see assumptions in the evidence).", ref="§7 C16"),
 "C17": dict(text="Dsn.tla models the simple form at token level with the code-shaped tokenizer; TLC checks Tokenize(Compose(items)) = items and totality for all item lists of the small scope (the pinned tokenizer is a refuted config). Traces of the real dsn package - item lists with aliases, unknown keys and all quote styles, FormatSimple/ParseSimple and FormatURI/ParseURI round trips over the documented alphabets, URI overrides, every string up to length 4 (5) over a 16-symbol alphabet through Parse/ParseSimple/ParseURI - are validated by TLC against Trace_Dsn.tla (alias table, last-wins fold, unknown-key rule, no panic).",
             note="Trusted: the harness composes simple-form text from items exactly as Compose does; net/url for percent-escaping.", ref="§7 C17"),
 "C18": dict(text="NamePool.tla (sync.Pool as a bag that a GC may empty, atomic mint, Release as Put then clear) is checked exhaustively for 3 goroutines; a config without the nil-id guard is refuted, reuse of a released id is shown reachable. Concurrent histories of the real pool (1..64 goroutines, 7 formats, GOMAXPROCS 1..16, forced GCs, race detector on) are validated by TLC against the contract Trace_NamePool.tla (held set).",
             note="Trusted: event stamping rule R2 (AcqEnd after Acquire returned, RelStart before Release is called), TLC. Data races are observed by the race detector, not decided.", ref="§7 C18"),
 "C19": dict(text="Capability.tla models Target.SetCapabilities step by step (break on the first containing range) and is checked by TLC against the interval-membership oracle for all capabilities with 0..2 ranges over a 3-point grid incl. missing and unparsable bounds; the full table and random range lists over a 12-point semver grid (pre-release/build suffixes, default and custom comparer, reversed orders, NewCapability pairing) are executed on the real package and validated by TLC against Trace_Capability.tla.",
             note="Trusted: the order-preserving grid table (itself checked against the comparer in every run), TLC.", ref="§7 C19"),
 "C20": dict(text="Isolation.tla: forward table and ToGo (as-is: any key of the map with that value - refuted by TLC; repaired: explicit reverse mapping) checked for all levels; every sql.IsolationLevel -8..64 and ASE level -3..8 is evaluated 200 (1000) times in 6 (16) processes and TLC validates the merged trace: one answer per argument within and across processes, the forward table, round trip of supported levels.",
             note="Trusted: harness naming of ASE levels by exported constants, TLC.", ref="§7 C20"),
 "C15": dict(text="PacketQueue.tla (code-shaped queue vs flat FIFO) is checked exhaustively by TLC for all operation sequences of a bounded scope; every behaviour of the small scope and simulated longer ones are replayed on the real tds.PacketQueue and the recorded traces, plus random sequences at packet sizes 9..600, are validated by TLC against Trace_PacketQueue.tla.",
             note="Trusted: the transcription of the trace events (harness pq driver), TLC, the guarded hook VerifPacketDataLens. Domain restrictions listed in DESIGN.md C15 (writes at the end position, no reads into make() padding).", ref="§7 C15"),
}
na = [
 {"property_id": "C04", "reason": "pure numeric/codec fidelity over 64-bit, IEEE-754 and 38-digit domains: no state, schedule or history; TLC (32-bit ints, no floats) could only relay a Go reference codec's verdict, which would be differential testing, not this technique (DESIGN.md §9)"},
 {"property_id": "C05", "reason": "same domain problem as C04 (microsecond counts ~6e16, money as 64-bit counts, float layouts); the independent reference codec the property calls for would have to live in Go, not in the specification (DESIGN.md §9)"},
]
m = {"version": 1,
     "setup_cmd": "./setup.sh",
     "hooks": {"guard": "verif", "enable": "go build -tags verif (drivers are built by ./check from /repo's working tree with -tags verif)",
               "baseline_off_cmd": "cd /repo && go build ./... && go test -vet=off -count=1 ./...",
               "source_commits": ["450c0ed"], "add_only": True},
     "engines": [{"name": "tlc", "path": "/opt/veriftools/tla/tla2tools.jar", "serves_properties": sorted(checks),
                  "kind_free_text": "TLA+ specifications under /verif/specs checked with TLC 1.8 (exhaustive, simulation for behaviour generation, trace validation)"}],
     "checks": [], "not_applicable": na,
     "notes": "See DESIGN.md. ./check <id> --tier quick|thorough; exit 0 held, 1 VIOLATION, 2 infrastructure. Properties not yet listed under checks are still being built."}
for pid in sorted(checks):
    c = checks[pid]
    m["checks"].append({"property_id": pid, "quick_cmd": "./check %s --tier quick" % pid,
                        "thorough_cmd": "./check %s --tier thorough" % pid,
                        "evidence_file": "evidence/%s.json" % pid,
                        "replay_cmd_template": "./check %s --replay {path}" % pid, "engine": "tlc",
                        "level_claimed": {"category": c.get("cat", "model_checking"), "text": c["text"], "design_ref": c["ref"]},
                        "level_note": c["note"], "technique": c.get("tech", T)})
json.dump(m, open(os.path.join(HERE, "MANIFEST.json"), "w"), indent=1)
print("wrote MANIFEST.json with", len(m["checks"]), "checks")
