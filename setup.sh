#!/bin/sh
# Offline setup: warm the Go build cache for the drivers (plain and -race) so that quick checks
# spend their time checking. Nothing is fetched; everything is rebuilt from /repo by ./check.
set -e
cd "$(dirname "$0")"
export GOFLAGS=-mod=mod GOPROXY=off GOSUMDB=off GOTOOLCHAIN=local
python3 - <<'PY'
import sys, os
sys.path.insert(0, "lib")
import vlib
c = vlib.Ctx("setup")
try:
    c.build_driver(race=False)
    c.build_driver(race=True)
finally:
    c.cleanup()
PY
java -cp /opt/veriftools/tla/tla2tools.jar tlc2.TLC -h >/dev/null 2>&1 || true
echo setup ok
