"""Shared receive-side machinery for C02, C03, C11, C14 (one design model, one trace spec)."""
import json, os


def design(ctx, thorough):
    ctx.tlc_mc("", "MC_RxPath", "MC_RxPath_thorough.cfg" if thorough else "MC_RxPath.cfg", workers=16, heap="8g")
    ctx.tlc_expect_violation("", "MC_RxPath", "MC_RxPath_Unjudged.cfg",
                             "pinned bookkeeping: a response delivering nothing after one that ended in a final DONE gets no final DONE (stale lastPkgRx)",
                             workers=8)
    ctx.tlc_expect_violation("", "MC_RxPath", "MC_RxPath_HdrOnly_AsIs.cfg",
                             "pinned code: a header-only packet of a response is delivered as a package and skips the end-of-message handling",
                             workers=8)
    ctx.tlc_expect_violation("", "MC_RxPath", "MC_RxPath_Wedge.cfg",
                             "spec growth: a malformed package is re-parsed with every later packet until the bounded error queue is full and the reader blocks",
                             workers=4)


def reader_design(ctx):
    """byte-level model of the packet reader: any read partition (C02), any failure offset (C14)"""
    ctx.tlc_mc("", "MC_PacketReader", "MC_PacketReader.cfg", workers=4)
    ctx.tlc_expect_violation("", "MC_PacketReader", "MC_PacketReader_AsIs.cfg",
                             "pinned header read: a header split over two reads is an error", workers=2)
    ctx.tlc_expect_violation("", "MC_PacketReader", "MC_PacketReader_EofData_AsIs.cfg",
                             "pinned body loop: a packet completed by a read that also reports EOF ends the reader without an error", workers=2)


def reader_badlen_design(ctx):
    """C10: headers announcing a length below 8 - the repaired reader returns an error, the pinned one spins"""
    ctx.tlc_mc("", "MC_PacketReader", "MC_PacketReader_BadLen.cfg", workers=4)
    ctx.tlc_expect_violation("", "MC_PacketReader", "MC_PacketReader_BadLen_AsIs.cfg",
                             "pinned reader: behind a header with length < 8 the body size wraps and the read loop never ends", workers=2)


def tlc_behaviours(ctx, n):
    g = ctx.tlc_generate("", "MC_RxPath", "GenSim_RxPath.cfg", workers=4,
                         args=["-simulate", "num=%d" % (n // 4), "-depth", "30", "-seed", str(ctx.seed)])
    f = os.path.join(ctx.scratch, "rx-scn.json")
    json.dump(g["scenarios"], open(f, "w"))
    return f


def drive(ctx, name, args, label, shards=None, env=None):
    t = os.path.join(ctx.scratch, "rx-%s.ndjson" % name)
    ctx.run_driver(["rx", "-seed", ctx.seed, "-out", t] + args)
    s = json.load(open(t + ".summary.json"))
    ctx.validate("", "Trace_RxPath", "Trace_RxPath.cfg", t, label=label, shards=shards, extra_env=env, stack="512m")
    return s
