"""C05 - Data type wire encodings match the TDS 5.0 layouts."""
from dtcommon import run_dt


def run(ctx):
    run_dt(ctx, "C05")
    return ctx.finish(level="exploration", rule="evaluations = codec / calendar calls of the real library recorded and judged by TLC (Rel); distinct_nontrivial = scenario groups (data type x kind of call) validated; " + "U1: DataTypes.tla self-check; U3: TLC computes the layout relation Rel(type, value, bytes) of the specification for "
                           "the bytes the library wrote, for the value it read from harness-made bytes, for the data field inside a PARAMS "
                           "package, and for the calendar helpers of asetime")
