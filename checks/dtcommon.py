"""C04 / C05 share the data type specification (DataTypes.tla), the driver `dt` and the trace specification."""
import os


def run_dt(ctx, judge):
    thorough = ctx.tier == "thorough"
    ctx.level_default = "exploration"
    if ctx.replay:
        ctx.validate("", "Trace_DataTypes", "Trace_DataTypes.cfg", ctx.replay, shards=1, label="replay (recorded trace)",
                     extra_env={"JUDGE": judge}, stack="64m")
        return
    ctx.tlc_mc("", "MC_DataTypes", "MC_DataTypes_thorough.cfg" if thorough else "MC_DataTypes.cfg", workers=4)
    t = os.path.join(ctx.scratch, "dt.ndjson")
    ctx.run_driver(["dt", "-out", t, "-seed", ctx.seed] + (["-thorough"] if thorough else []))
    ctx.validate("", "Trace_DataTypes", "Trace_DataTypes.cfg", t, extra_env={"JUDGE": judge}, stack="64m",
                 max_rejects=int(os.environ.get("VERIF_MAX_REJECTS", "3")),
                 label="every data type with a Go mapping: value -> Bytes -> GoValue, harness-made (server) bytes -> GoValue, "
                       "value behind a server-announced format in PARAMFMT/PARAMS, calendar helpers, type tables")
    if thorough:
        # every day of the years 1..9999 through the calendar helpers and the DATE codec
        parts = 8
        for p in range(parts):
            tp = os.path.join(ctx.scratch, "dt-every-%d.ndjson" % p)
            ctx.run_driver(["dt", "-out", tp, "-seed", ctx.seed, "-everyday", "%d/%d" % (p, parts)])
            ctx.validate("", "Trace_DataTypes", "Trace_DataTypes.cfg", tp, extra_env={"JUDGE": judge}, stack="64m", heap="3g",
                         label="every day 0001-01-01..9999-12-31, part %d/%d" % (p + 1, parts), sample_n=0)
            os.unlink(tp)
        # the ticks of a day as a server's TIME value (every 7th tick and the first / last thousand), decoded and re-encoded
        for p in range(4):
            tp = os.path.join(ctx.scratch, "dt-tick-%d.ndjson" % p)
            ctx.run_driver(["dt", "-out", tp, "-seed", ctx.seed, "-everytick", "%d/4/7" % p])
            ctx.validate("", "Trace_DataTypes", "Trace_DataTypes.cfg", tp, extra_env={"JUDGE": judge}, stack="64m", heap="3g",
                         label="ticks of a day, part %d/4" % (p + 1), sample_n=0)
            os.unlink(tp)
    ctx.assumptions += [
        "DataTypes.tla is my transcription of the TDS 5.0 data type layouts (no machine-readable reference offline), self-checked by TLC against day counting and documented limits",
        "values reach TLC in canonical forms made with the standard library (strconv, math/big, math.Float64bits, time.Time accessors, []rune): those conversions are trusted",
        "little-endian byte order only (what the login record announces); BLOB and the placeholder types excluded",
        "the text-pointer family (TEXT, IMAGE, UNITEXT, XML) is driven through DataType.Bytes / GoValue only: inside packages the library hands out the raw bytes",
        "a value between two ticks of a classic temporal type may be encoded as either neighbouring tick"]
