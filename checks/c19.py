"""C19 - A version has a capability exactly inside the capability's ranges."""
import os


def run(ctx):
    thorough = ctx.tier == "thorough"
    ctx.tlc_mc("", "Capability", "MC_Capability_thorough.cfg" if thorough else "MC_Capability.cfg", workers=8)
    t = os.path.join(ctx.scratch, "cap.ndjson")
    ctx.run_driver(["cap", "-out", t, "-seed", ctx.seed, "-g", 4 if thorough else 3, "-count", 20000 if thorough else 1500])
    ctx.validate("", "Trace_Capability", "Trace_Capability.cfg", t, label="full table over a small grid + random over a 12-point semver grid")
    ctx.assumptions += ["an invalid range that a lazy evaluation need not reach (behind a containing range) may or may not be reported as an error (three-valued oracle)",
                        "the grid table's order is checked against the default comparer in the same run (event Grid)"]
    return ctx.finish(rule="every capability with 0..2 ranges over bounds {missing, unparsable, 1..g} x every version, both comparers; random 1..3 capabilities x 0..4 ranges and their reversals")
