"""C17 - Connection descriptions round-trip and never crash the parser."""
import os


def run(ctx):
    thorough = ctx.tier == "thorough"
    ctx.tlc_mc("", "Dsn", "MC_Dsn_thorough.cfg" if thorough else "MC_Dsn.cfg", workers=8)
    ctx.tlc_expect_violation("", "Dsn", "MC_Dsn_AsIs.cfg", "pinned tokenizer indexes out of range on a quoted single space / unterminated quote")
    t = os.path.join(ctx.scratch, "dsn.ndjson")
    ctx.run_driver(["dsn", "-out", t, "-seed", ctx.seed, "-count", 6000 if thorough else 600, "-maxlen", 5 if thorough else 4])
    ctx.validate("", "Trace_Dsn", "Trace_Dsn.cfg", t, label="simple-form items, round trips (simple / URI), URI overrides, totality")
    ctx.assumptions += ["URI form: percent-escaping is net/url's; host and port are hostname-/port-shaped (the statement speaks about user, password, database and additional properties); no userstore-key field (that form replaces the credentials by design)",
                        "simple form: values free of quotes, backslashes and control characters; typed fields get canonical bool/int text",
                        "totality: Parse / ParseSimple on a struct with one-letter tags, ParseURI on dsn.Info"]
    return ctx.finish(rule="U1: Tokenize(Compose(items)) = items for all item lists of the small scope (pinned tokenizer kept as refuted config); U3: random item lists with aliases/unknown keys, round trips over the documented alphabets, every string up to length 4 (5) over a 16-symbol alphabet")
