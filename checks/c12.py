"""C12 - Logical channels are isolated and correctly routed under concurrency."""
import os


def run(ctx):
    thorough = ctx.tier == "thorough"
    if ctx.replay:
        ctx.validate("", "Trace_Mux", "Trace_Mux.cfg", ctx.replay, shards=1, label="replay (recorded trace)")
        return ctx.finish()
    ctx.tlc_mc("", "Mux", "MC_Mux_thorough.cfg" if thorough else "MC_Mux.cfg", workers=16, heap="8g")
    ctx.tlc_expect_violation("", "Mux", "MC_Mux_AsIsIds.cfg", "pinned id allocation: two concurrent NewChannel calls read the same counter value")
    ctx.tlc_expect_violation("", "Mux", "MC_Mux_AsIsAck.cfg", "pinned setup: acknowledgement queued by value, NewChannel's pointer assertion fails")
    ctx.tlc_expect_violation("", "Mux", "MC_Mux_ConnNr.cfg", "variant with one packet counter for the connection: a channel's packet numbers are not consecutive once two channels send")
    ctx.tlc_expect_violation("", "Mux", "MC_Mux_SetupFirst.cfg", "variant that writes the setup packet before it registers the channel: the reader routes the acknowledgement to nobody")
    # unbounded in the number of creators: distinct ids under the atomic reservation (TLAPS)
    ctx.tlaps("MuxIdsProof")
    t = os.path.join(ctx.scratch, "mux.ndjson")
    p = ctx.run_driver(["mux", "-out", t, "-seed", ctx.seed, "-rounds", 40 if thorough else 8], race=True, allow_fail=True)
    if p.returncode != 0:
        if "WARNING: DATA RACE" in p.stdout:
            # a race report is an execution the specification has no action for
            import hashlib
            path = os.path.join(os.path.dirname(os.path.dirname(os.path.abspath(__file__))), "replays", "C12-race-%s.txt" % hashlib.sha1(p.stdout.encode()).hexdigest()[:10])
            open(path, "w").write(p.stdout[-20000:])
            ctx.violations.append((path, "the race detector reported a data race while channels were used concurrently"))
            return ctx.finish()
        ctx.check_library_panic(p.stdout, ["mux"])
        from vlib import Infra
        raise Infra("mux driver failed: " + p.stdout[-2000:])
    ctx.validate("", "Trace_Mux", "Trace_Mux.cfg", t, label="1..16 channels, concurrent NewChannel / Send / Recv / Close, random interleaving of the peer's packets, GOMAXPROCS 1..16, -race")
    # every packet of a message sent on a logical channel carries that channel's id and the next packet number -
    # also the empty packet that terminates a message of exactly k packet bodies (transmit driver, JUDGE=C12)
    tt = os.path.join(ctx.scratch, "tx-c12.ndjson")
    ctx.run_driver(["tx", "-count", 600 if thorough else 120, "-seed", ctx.seed + 5, "-out", tt])
    ctx.validate("", "Trace_TxPath", "Trace_TxPath.cfg", tt, label="messages on channel 0 and on logical channels, exact multiples of the packet body included", extra_env={"JUDGE": "C12"})
    # isolation: the errors of another channel, more than its queue holds, are not handed to this channel
    tl = os.path.join(ctx.scratch, "life-c12.ndjson")
    ctx.run_driver(["life", "-out", tl, "-seed", ctx.seed, "-directed", "-floodonly"], race=False, timeout=600)
    ctx.validate("", "Trace_Life", "Trace_Life.cfg", tl, shards=1, label="another channel's error queue overflows while this one receives and sends")
    ctx.assumptions += ["data-race freedom is observed under the race detector (a report is a violation with the report as replay file), not decided by the specification",
                        "channel ids are read through the guarded hook Channel.VerifChannelID",
                        "the peer acknowledges every channel setup and answers every client message on its channel"]
    return ctx.finish(rule="U1: 2 (3) concurrent creators, peer packets to any channel id, all interleavings; pinned id allocation and pinned acknowledgement handling kept as refuted configs; U3: stress traces")
