"""C03 - Each response is delimited by exactly one final DONE and fully drained."""
import rxcommon


def run(ctx):
    thorough = ctx.tier == "thorough"
    env = {"JUDGE": "C03"}
    if ctx.replay:
        ctx.validate("", "Trace_RxPath", "Trace_RxPath.cfg", ctx.replay, shards=1, label="replay (recorded trace)", extra_env=env)
        return ctx.finish()
    rxcommon.design(ctx, thorough)
    scn = rxcommon.tlc_behaviours(ctx, 4000 if thorough else 800)
    s0 = rxcommon.drive(ctx, "u2", ["-scn", scn], "TLC-generated 2-round behaviours, concretised", env=env)
    s1 = rxcommon.drive(ctx, "rounds", ["-rounds", 3000 if thorough else 300], "multi-round sequences, NextPackage consumer", env=env)
    # the consumer side as a design model: every delivered shape x every callback script (TLC), then replayed
    ctx.tlc_mc("", "Until", "MC_Until_thorough.cfg" if thorough else "MC_Until.cfg", workers=8)
    import json, os
    g = ctx.tlc_generate("", "Until", "Gen_Until_thorough.cfg" if thorough else "Gen_Until.cfg", workers=1)
    seen, scns = set(), []
    for x in g["scenarios"]:
        k = json.dumps(x, sort_keys=True)
        if k not in seen:
            seen.add(k)
            scns.append(x)
    f = os.path.join(ctx.scratch, "until-scn.json")
    json.dump(scns, open(f, "w"))
    s3 = rxcommon.drive(ctx, "untilscn", ["-untilscn", f], "every consumer behaviour of Until.tla (delivered shapes <= %d packages x callback scripts x nil callback), replayed" % (3 if thorough else 2), env=env)
    ctx.extra["until_model_behaviours"] = len(scns)
    s2 = rxcommon.drive(ctx, "until", ["-until", 4000 if thorough else 400],
                        "multi-round sequences, NextPackageUntil with scripted callback outcomes (cont/stop/io.EOF/error/nil callback)", env=env)
    s4 = rxcommon.drive(ctx, "reads", ["-reads", 40 if thorough else 6],
                        "through the reader goroutine, also with a package queue of 1..3 entries and a consumer that starts late (the final DONE must get through)", env=env)
    s5 = rxcommon.drive(ctx, "reqresp", ["-reqresp", 200 if thorough else 25],
                        "request / response rounds: SendPackage, the answer parsed before the send call returns, read up to the final DONE", env=env)
    ctx.extra["reqresp_runs"] = s5["runs"]
    ctx.extra.update({"u2_runs": s0["runs"], "round_runs": s1["runs"], "until_runs": s2["runs"], "reader_runs": s4["runs"]})
    ctx.assumptions += [
        "a DONE-family package with status 0 occurs only as the last package of a response (mid-response DONEPROC/DONEINPROC with status 0: open question in DESIGN.md §13); responses that deliver nothing (only informational messages / environment changes) and the empty response are included from the second round on",
        "the return value of NextPackageUntil with a nil callback (io.EOF or nil) is not judged, only that the response is consumed"]
    return ctx.finish(rule="U1 exhaustive small scope incl. 2 rounds; U2/U3 rounds on one channel with reference values from a fresh single-packet run")
