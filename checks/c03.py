"""C03 - Each response is delimited by exactly one final DONE and fully drained."""
import rxcommon


def run(ctx):
    thorough = ctx.tier == "thorough"
    env = {"JUDGE": "C03"}
    if ctx.replay:
        ctx.validate("", "Trace_RxPath", "Trace_RxPath.cfg", ctx.replay, shards=1, label="replay (recorded trace)", extra_env=env)
        return ctx.finish()
    rxcommon.design(ctx, thorough)
    scn = rxcommon.tlc_behaviours(ctx, 4000 if thorough else 800)
    s0 = rxcommon.drive(ctx, "u2", ["-scn", scn], "TLC-generated 2-round behaviours, concretised", env=env)
    s1 = rxcommon.drive(ctx, "rounds", ["-rounds", 3000 if thorough else 300], "multi-round sequences, NextPackage consumer", env=env)
    s2 = rxcommon.drive(ctx, "until", ["-until", 4000 if thorough else 400],
                        "multi-round sequences, NextPackageUntil with scripted callback outcomes (cont/stop/io.EOF/error/nil callback)", env=env)
    ctx.extra.update({"u2_runs": s0["runs"], "round_runs": s1["runs"], "until_runs": s2["runs"]})
    ctx.assumptions += [
        "judged responses only: at least one package reaches the consumer; a DONE-family package with status 0 occurs only as the last package of a response (mid-response DONEPROC/DONEINPROC with status 0: open question in DESIGN.md §13)",
        "the return value of NextPackageUntil with a nil callback (io.EOF or nil) is not judged, only that the response is consumed"]
    return ctx.finish(rule="U1 exhaustive small scope incl. 2 rounds; U2/U3 rounds on one channel with reference values from a fresh single-packet run")
