"""C11 - Server messages and environment changes are surfaced exactly once."""
import rxcommon


def run(ctx):
    thorough = ctx.tier == "thorough"
    env = {"JUDGE": "C11"}
    if ctx.replay:
        ctx.validate("", "Trace_RxPath", "Trace_RxPath.cfg", ctx.replay, shards=1, label="replay (recorded trace)", extra_env=env)
        return ctx.finish()
    rxcommon.design(ctx, thorough)
    scn = rxcommon.tlc_behaviours(ctx, 4000 if thorough else 600)
    s0 = rxcommon.drive(ctx, "u2", ["-scn", scn], "TLC-generated behaviours (info/eed/env kinds at all positions), concretised", env=env)
    s1 = rxcommon.drive(ctx, "frag", ["-frag", 120 if thorough else 14, "-maxcuts", 300 if thorough else 80],
                        "EED / ENVCHANGE placement x packetisation (a retried parse must not re-fire a hook)", env=env)
    s2 = rxcommon.drive(ctx, "rounds", ["-rounds", 2000 if thorough else 250], "hooks registered before / between responses, packet size changes", env=env)
    s3 = rxcommon.drive(ctx, "until", ["-until", 3000 if thorough else 300], "callback failures: error carries the messages received so far", env=env)
    s4 = rxcommon.drive(ctx, "reads", ["-reads", 40 if thorough else 5], "through the reader goroutine (hook before later packages)", env=env)
    # packet size changes that arrive on a logical channel (through the reader goroutine) are applied to the connection
    import os
    tt = os.path.join(ctx.scratch, "tx-c11.ndjson")
    ctx.run_driver(["tx", "-count", 400 if thorough else 60, "-seed", ctx.seed, "-out", tt])
    ctx.validate("", "Trace_TxPath", "Trace_TxPath.cfg", tt, label="packet size changes on channel 0 and on logical channels, then messages cut with the new size", extra_env=env)
    ctx.extra.update({"u2_runs": s0["runs"], "frag_runs": s1["runs"], "round_runs": s2["runs"], "until_runs": s3["runs"], "reader_runs": s4["runs"]})
    ctx.assumptions += [
        "hook events are emitted inside the callback (stamped before the package can reach the consumer), Recv after NextPackage returned (R2)",
        "the error of a failing callback must carry the EEDs received in that NextPackageUntil call up to the failing package; those of the drained rest may be included or not"]
    return ctx.finish(rule="U1 exhaustive small scope; U3 random responses with 0..n EED (info/non-info) and ENVCHANGE members of all four types at all positions")
