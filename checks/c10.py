"""C10 - No server input can crash the client (exploration)."""
import json, os
import c06
import rxcommon
import sys


def run(ctx):
    ctx.level_default = "exploration"
    thorough = ctx.tier == "thorough"
    if ctx.replay:
        ctx.validate("", "Trace_Wire", "Trace_Wire.cfg", ctx.replay, shards=1, label="replay (recorded trace)", extra_env={"JUDGE": "C10"}, stack="64m")
        return ctx.finish(level="exploration")
    ctx.tlc_mc("", "MC_Wire", "MC_Wire.cfg", workers=4)
    rxcommon.reader_badlen_design(ctx)
    t = c06.drive(ctx, "C10", ["-count", 1, "-mut", 12 if thorough else 2], "structured hostile inputs generated from valid encodings")
    # the login negotiation is a parser of server input as well: every single-edit reply script (unusable keys,
    # wrong types, missing packages) must end in success or an error, never in a panic
    import c08
    scripts = c08.gen_scripts(ctx, "Gen_LoginFlow.cfg")
    c08.run_login(ctx, scripts, "C10", label="every single-edit login reply script: no panic")
    # ... and so is the logout exchange of Close: whatever package the server answers with, Close returns
    import os
    tl = os.path.join(ctx.scratch, "life-logout.ndjson")
    ctx.run_driver(["life", "-out", tl, "-seed", ctx.seed, "-directed", "-logoutonly"], timeout=600)
    ctx.validate("", "Trace_Life", "Trace_Life.cfg", tl, label="Close / Conn.Close with a peer that answers the logout with RETURNSTATUS, EED or LOGINACK: no panic, no hang")
    n = kinds = 0
    cls = {"ok": 0, "need": 0, "err": 0, "panic": 0}
    sample = None
    for line in open(t):
        if '"ev":"Mut"' in line:
            e = json.loads(line)
            n += e["n"]
            kinds += 1
            for k in cls:
                cls[k] += e[k]
            sample = sample or e
    ctx.extra.update({"evaluations": n, "distinct_nontrivial": kinds, "outcome_classes": cls})
    if sample:
        ctx.samples.insert(0, {"batch": sample})
    ctx.assumptions += [
        "exploration only: inputs are single-field boundary mutations (every byte / 16-bit / 32-bit window of the leading 48 bytes), truncations, appended garbage, arbitrary bytes after each token, format packages followed by mutated data, every data type x data length 0..255, random packet headers incl. length < 8 (every eighth one followed by 66 kB, a peer that keeps sending); a call still running 3 s after a dead peer is a hang and rejected; no coverage guidance, no multi-field coordination",
        "allocation is measured (runtime.MemStats.TotalAlloc delta per input), bound 64 x received + 2 MiB (the constant covers slices sized by 16-bit count fields); an allocation beyond that which is explained by a length declared in the input is reported separately (declared) and is a violation unless acknowledged",
        "32-bit length fields are mutated to at most 16 MiB (an allocation of the declared size stays observable and cheap)"]
    return ctx.finish(level="exploration", rule="distinct_nontrivial = number of (level, package kind / data type) batches; evaluations = hostile inputs executed")
