"""C20 - Isolation level mapping is a deterministic, consistent function."""
import os


def run(ctx):
    thorough = ctx.tier == "thorough"
    ctx.tlc_mc("", "Isolation", "MC_Isolation.cfg", workers=2)
    ctx.tlc_expect_violation("", "Isolation", "MC_Isolation_AsIs.cfg", "ToGo ranging over the forward map is two-valued for read committed")
    nproc = 64 if thorough else 24
    t = os.path.join(ctx.scratch, "iso.ndjson")
    with open(t, "w") as out:
        for i in range(nproc):
            p = os.path.join(ctx.scratch, "iso-%d.ndjson" % i)
            ctx.run_driver(["iso", "-out", p, "-reps", 1000 if thorough else 200] + ([] if i == 0 else ["-first=false"]))
            out.write(open(p).read())
    ctx.validate("", "Trace_Isolation", "Trace_Isolation.cfg", t, shards=1, label="%d processes" % nproc)
    ctx.extra.update({"processes": nproc})
    ctx.assumptions += ["ASE levels are identified by the exported constants (names), not by numeric value",
                        "for ASE levels outside the four supported ones only 'always the same answer' is required"]
    return ctx.finish(rule="every sql.IsolationLevel -8..64 and ASE level -3..8, each evaluated 200 (1000) times per process in several processes")
