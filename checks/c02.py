"""C02 - Received package stream does not depend on fragmentation."""
import json, os
import rxcommon

ENV = {"JUDGE": "C02"}


def run(ctx):
    thorough = ctx.tier == "thorough"
    if ctx.replay:
        ctx.validate("", "Trace_RxPath", "Trace_RxPath.cfg", ctx.replay, shards=1, label="replay (recorded trace)", extra_env=ENV)
        return ctx.finish()
    rxcommon.design(ctx, thorough)
    rxcommon.reader_design(ctx)
    scn = rxcommon.tlc_behaviours(ctx, 4000 if thorough else 600)
    s0 = rxcommon.drive(ctx, "u2", ["-scn", scn], "TLC-generated behaviours, concretised", env=ENV)
    s1 = rxcommon.drive(ctx, "frag", ["-frag", 200 if thorough else 24, "-maxcuts", 400 if thorough else 100],
                        "every 1-cut / sampled 2-cuts / random cut sets", env=ENV)
    sk = rxcommon.drive(ctx, "kinds", ["-kinds", 6 if thorough else 1], "every package kind on its own, every 1-cut", env=ENV)
    s2 = rxcommon.drive(ctx, "small", ["-small", 40 if thorough else 8], "short responses, all 2^(n-1) cut sets", env=ENV)
    s3 = rxcommon.drive(ctx, "reads", ["-reads", 60 if thorough else 8], "read partitions through the transport", env=ENV)
    ctx.extra.update({"u2_runs": s0["runs"], "frag_runs": s1["runs"], "small_runs": s2["runs"], "kinds_runs": sk["runs"], "reader_runs": s3["runs"],
                      "delivered_package_kinds": s1["kinds"]})
    ctx.assumptions += [
        "a DONE with status 0 occurs only as the last package of a response; no tokenless packages (unknown tokens swallow the rest of the message by design). Header-only packets inside a response and as its EOM packet are part of the packetisations",
        "'same field values' = equal hash of a complete reflective dump of the delivered package (all fields, exported or not)",
        "server-side package kinds generated: DONE/DONEPROC/DONEINPROC, EED, ENVCHANGE, MSG, RETURNSTATUS, ROWFMT2+ROW, PARAMFMT(2)+PARAMS, ORDERBY2 over all data types with a Go mapping (BLOB excluded)"]
    return ctx.finish(rule="U1 exhaustive: all responses of <=3 packages of length <=2(3), all packetisations with bodies 1..3, 2 rounds")
