"""C08 - Login succeeds exactly when the server accepted it."""
import json, os
from concurrent.futures import ThreadPoolExecutor


def gen_scripts(ctx, cfg):
    g = ctx.tlc_generate("", "Login", cfg, workers=1)
    seen, out = set(), []
    for s in g["scenarios"]:
        k = json.dumps(s, sort_keys=True)
        if k not in seen:
            seen.add(k)
            out.append(s)
    return out


def run_login(ctx, scripts, judge, extra_args=(), label="", parts=12):
    f = os.path.join(ctx.scratch, "login-scn.json")
    json.dump(scripts, open(f, "w"))
    outs = []

    def one(i):
        p = os.path.join(ctx.scratch, "login-%s-%d.ndjson" % (judge, i))
        ctx.run_driver(["login", "-out", p, "-seed", ctx.seed, "-scn", f, "-part", i, "-parts", parts] + list(extra_args))
        return p
    with ThreadPoolExecutor(max_workers=parts) as ex:
        outs = list(ex.map(one, range(parts)))
    t = os.path.join(ctx.scratch, "login-%s.ndjson" % judge)
    with open(t, "w") as o:
        for p in outs:
            o.write(open(p).read())
    ctx.validate("", "Trace_Login", "Trace_Login.cfg", t, label=label, extra_env={"JUDGE": judge}, stack="16m")
    return t


def run(ctx):
    thorough = ctx.tier == "thorough"
    if ctx.replay:
        ctx.validate("", "Trace_Login", "Trace_Login.cfg", ctx.replay, shards=1, label="replay (recorded trace)", extra_env={"JUDGE": "C08"})
        return ctx.finish()
    ctx.tlc_mc("", "Login", "MC_Login_thorough.cfg" if thorough else "MC_Login.cfg", workers=8)
    scripts = gen_scripts(ctx, "Gen_Login.cfg")
    if thorough:
        import random
        rnd = random.Random(ctx.seed)
        s2 = gen_scripts(ctx, "Gen_Login2.cfg")
        rnd.shuffle(s2)
        scripts += s2[:6000]
    verdicts = {}
    for s in scripts:
        verdicts[s["verdict"]] = verdicts.get(s["verdict"], 0) + 1
    run_login(ctx, scripts, "C08", label="every single-edit script of both flows%s, random key sizes / nonce lengths / remote servers / packetisations" % (" + 6000 double edits" if thorough else ""))
    ctx.extra.update({"scripts": len(scripts), "verdict_classes": verdicts})
    ctx.assumptions += [
        "the peer answers the client's first message with the first server message and the client's encrypted reply with the second; packages after the last end-of-message are never sent",
        "three-valued oracle: S = the statement's valid acceptance (informational EED / ENVCHANGE may be interleaved), F = deviation at a place the statement names, U = DONE status bits other than FINAL, library-supplied final DONE, extra packages (either outcome accepted, never a crash or an outlived context)",
        "deadline of the caller's context 400 ms; 'outlives the context' = not returned 3 s after it"]
    return ctx.finish(rule="U1: specification sanity over all single (double) edits; U2: every script TLC enumerates is performed by the independent peer against the real Channel.Login and judged by TLC through Verdict(flow, script)")
