"""C08 - Login succeeds exactly when the server accepted it."""
import json, os
from concurrent.futures import ThreadPoolExecutor


def gen_scripts(ctx, cfg):
    # the scripts come out of the code-shaped step model: each with the contract's verdict and the model's outcome
    g = ctx.tlc_generate("", "LoginFlow", cfg, workers=1)
    seen, out = set(), []
    for s in g["scenarios"]:
        k = json.dumps(s, sort_keys=True)
        if k not in seen:
            seen.add(k)
            out.append(s)
    return out


def run_login(ctx, scripts, judge, extra_args=(), label="", parts=12):
    f = os.path.join(ctx.scratch, "login-scn.json")
    json.dump(scripts, open(f, "w"))
    outs = []

    def one(i):
        p = os.path.join(ctx.scratch, "login-%s-%d.ndjson" % (judge, i))
        ctx.run_driver(["login", "-out", p, "-seed", ctx.seed, "-scn", f, "-part", i, "-parts", parts] + list(extra_args))
        return p
    with ThreadPoolExecutor(max_workers=parts) as ex:
        outs = list(ex.map(one, range(parts)))
    t = os.path.join(ctx.scratch, "login-%s.ndjson" % judge)
    drift = {"modelled": 0, "drift": 0, "drift_samples": []}
    with open(t, "w") as o:
        for p in outs:
            o.write(open(p).read())
            if os.path.exists(p + ".summary.json"):
                sm = json.load(open(p + ".summary.json"))
                drift["modelled"] += sm.get("modelled", 0)
                drift["drift"] += sm.get("drift", 0)
                drift["drift_samples"] += sm.get("drift_samples") or []
    ctx.extra["loginflow_model_vs_code"] = drift
    if drift["modelled"]:
        from vlib import log
        log("  [U2] LoginFlow step model vs Channel.Login: %d scripts, %d with a different outcome" % (drift["modelled"], drift["drift"]))
    ctx.validate("", "Trace_Login", "Trace_Login.cfg", t, label=label, extra_env={"JUDGE": judge}, stack="16m")
    return t


def run(ctx):
    thorough = ctx.tier == "thorough"
    if ctx.replay:
        ctx.validate("", "Trace_Login", "Trace_Login.cfg", ctx.replay, shards=1, label="replay (recorded trace)", extra_env={"JUDGE": "C08"})
        return ctx.finish()
    ctx.tlc_mc("", "Login", "MC_Login_thorough.cfg" if thorough else "MC_Login.cfg", workers=8)
    ctx.tlc_mc("", "LoginFlow", "MC_LoginFlow_thorough.cfg" if thorough else "MC_LoginFlow.cfg", workers=8)
    scripts = gen_scripts(ctx, "Gen_LoginFlow.cfg")
    if thorough:
        import random
        rnd = random.Random(ctx.seed)
        s2 = gen_scripts(ctx, "Gen_LoginFlow2.cfg")
        rnd.shuffle(s2)
        scripts += s2
    verdicts = {}
    for s in scripts:
        verdicts[s["verdict"]] = verdicts.get(s["verdict"], 0) + 1
    run_login(ctx, scripts, "C08", label="every single-edit script of both flows%s, random key sizes / nonce lengths / remote servers / packetisations" % (" + every double edit" if thorough else ""))
    ctx.extra.update({"scripts": len(scripts), "verdict_classes": verdicts})
    ctx.assumptions += [
        "the peer answers the client's first message with the first server message and the client's encrypted reply with the second; packages after the last end-of-message are never sent",
        "three-valued oracle: S = the statement's valid acceptance (informational EED / ENVCHANGE may be interleaved), F = deviation at a place the statement names, U = DONE status bits other than FINAL, library-supplied final DONE, extra packages (either outcome accepted, never a crash or an outlived context)",
        "deadline of the caller's context 400 ms; 'outlives the context' = not returned 3 s after it"]
    return ctx.finish(rule="U1: specification sanity over all single (double) edits; U2: every script TLC enumerates is performed by the independent peer against the real Channel.Login and judged by TLC through Verdict(flow, script)")
