"""C15 - The packet queue behaves as a byte FIFO across packet boundaries."""
import json, os
from vlib import log


def run(ctx):
    thorough = ctx.tier == "thorough"
    # U1: exhaustive design check of the code-shaped queue against the flat FIFO
    ctx.tlc_mc("", "PacketQueue", "MC_PacketQueue_thorough.cfg" if thorough else "MC_PacketQueue.cfg",
               workers=8, heap="8g")
    # U2: TLC-generated behaviours: every operation sequence of the small scope + simulated long ones
    g1 = ctx.tlc_generate("", "PacketQueue", "Gen_PacketQueue_thorough.cfg" if thorough else "Gen_PacketQueue.cfg",
                          workers=4)
    g2 = ctx.tlc_generate("", "PacketQueue", "GenSim_PacketQueue.cfg", workers=4,
                          args=["-simulate", "num=%d" % (1500 if thorough else 250), "-depth", "13",
                                "-seed", str(ctx.seed)])
    scns = g1["scenarios"] + g2["scenarios"]
    scn_file = os.path.join(ctx.scratch, "pq-scn.json")
    with open(scn_file, "w") as f:
        json.dump(scns, f)
    t1 = os.path.join(ctx.scratch, "pq-u2.ndjson")
    if ctx.replay:
        return replay(ctx)
    ctx.run_driver(["pq", "-scn", scn_file, "-typed", "-out", t1])
    s1 = json.load(open(t1 + ".summary.json"))
    ctx.validate("", "Trace_PacketQueue", "Trace_PacketQueue.cfg", t1, label="TLC-generated behaviours, reads through Bytes / Read and again through the typed readers")
    # U3: random operation sequences at packet sizes 9..600
    t2 = os.path.join(ctx.scratch, "pq-rand.ndjson")
    ctx.run_driver(["pq", "-count", 6000 if thorough else 700, "-seed", ctx.seed, "-out", t2])
    s2 = json.load(open(t2 + ".summary.json"))
    ctx.validate("", "Trace_PacketQueue", "Trace_PacketQueue.cfg", t2, label="random sequences, packet sizes 9..600")
    ctx.extra.update({"u2_scenarios": s1["scenarios"], "u2_ops": s1["ops"], "model_drift_steps": s1["drift"],
                      "random_scenarios": s2["scenarios"], "random_ops": s2["ops"],
                      "op_kinds": s2["op_kinds"]})
    ctx.assumptions += [
        "writes only at the end position; AddPacket only behind an unpadded tail; reads beyond the end judged only without a padded (written) tail packet (DESIGN.md C15, unspecified region)",
        "packet capacities observed through the guarded hook PacketQueue.VerifPacketDataLens",
        "the harness byte pattern (period 65025) makes lost/duplicated/reordered bytes visible"]
    return ctx.finish(rule="U1 exhaustive over all operation sequences of the bounded scope; U2 every behaviour of the small scope replayed on the real queue; U3 random sequences")


def replay(ctx):
    lines = open(ctx.replay).read().splitlines()
    desc = json.loads(json.loads(lines[0])["desc"])
    t = os.path.join(ctx.scratch, "pq-replay.ndjson")
    ctx.run_driver(["pq", "-desc", json.dumps(desc), "-out", t])
    ctx.validate("", "Trace_PacketQueue", "Trace_PacketQueue.cfg", t, shards=1, label="replay")
    return ctx.finish()
