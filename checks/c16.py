"""C16 - Decimal text conversion preserves the numeric value."""
import os


def run(ctx):
    thorough = ctx.tier == "thorough"
    ctx.tlc_mc("", "MC_DecimalText", "MC_DecimalText_thorough.cfg" if thorough else "MC_DecimalText.cfg", workers=8)
    t = os.path.join(ctx.scratch, "dec.ndjson")
    ctx.run_driver(["dec", "-out", t, "-seed", ctx.seed, "-per", 20 if thorough else 5] + (["-allpairs"] if thorough else []))
    ctx.validate("", "Trace_Decimal", "Trace_Decimal.cfg", t, label="format / parse / construction on the real Decimal", stack="64m")
    ctx.assumptions += ["three-valued parse oracle: proper numerals (digit+ [. digit+], optional minus) that fit must be accepted exactly; anything accepted must be a numeral, representable, and exactly its value; '1.', '.5', '+1' and trailing zeros beyond the scale may be accepted (exactly) or rejected",
                        "precision 0 is not judged (ASE requires >= 1; the library allows it)",
                        "values are set through SetBytes/Negate (exported API), digits compared as sequences"]
    return ctx.finish(rule="U1: model-level Parse(Fmt(x)) = x and canonical shape for all (p,s), p<=5(6); U3: boundary values 0, 1, 10^k, 10^k-1 at sampled/all (p,s) up to 38, text variants, random strings")
