"""C09 - Passwords never cross the wire in clear when encryption is negotiated."""
import json, os
import c08


def run(ctx):
    thorough = ctx.tier == "thorough"
    if ctx.replay:
        ctx.validate("", "Trace_Login", "Trace_Login.cfg", ctx.replay, shards=1, label="replay (recorded trace)", extra_env={"JUDGE": "C09"})
        return ctx.finish()
    ctx.tlc_mc("", "Login", "MC_Login.cfg", workers=8)
    scripts = c08.gen_scripts(ctx, "Gen_LoginFlow.cfg")
    c08.run_login(ctx, scripts, "C09", extra_args=["-c09", 120 if thorough else 25],
                  label="all single-edit scripts + valid logins with boundary passwords (empty, colliding with user/host, key capacity, capacity+1)")
    ctx.extra.update({"scripts": len(scripts)})
    ctx.assumptions += [
        "RSA-OAEP/SHA-1 itself is trusted (crypto/rsa); ciphertexts are abstracted by decrypting with the peer's private key",
        "clear-text scan: every byte the client wrote, with the legitimate text slots of the login record masked; secrets shorter than 4 bytes are only checked through the password slot and the ciphertext plaintexts",
        "control: the plain flow must show the password in its slot, so the oracle cannot pass vacuously"]
    return ctx.finish(rule="every login of the C08 script set plus valid logins over password classes; per login: login record slot, clear-text scan, each ciphertext decrypted and classified, freshness")
