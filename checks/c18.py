"""C18 - Pooled names are unique among concurrent holders."""
import json, os


def run(ctx):
    thorough = ctx.tier == "thorough"
    ctx.tlc_mc("", "NamePool", "MC_NamePool.cfg", workers=8)
    ctx.tlc_expect_violation("", "NamePool", "MC_NamePool_NoNilCheck.cfg", "without the nil-id guard a double release hands one id to two holders")
    ctx.tlc_expect_violation("", "NamePool", "MC_NamePool_Recycle.cfg", "reachability: a released id is handed out again (NeverRecycled is refuted)")
    # unbounded in the schedule: an inductive invariant (uniqueness + bookkeeping) proved by Apalache for 4 goroutines / 6 ids
    ctx.apalache_inductive("NamePoolInd", "CInit", "Init", "IndInv")
    # unbounded in the constants as well: Spec => []Unique for any set of goroutines and any id bound (TLAPS)
    ctx.tlaps("NamePoolProof")
    t = os.path.join(ctx.scratch, "np.ndjson")
    # GORACE exitcode=0: a race report does not end the driver, so the recorded history is judged by
    # TLC as well; the report itself is an execution the specification has no action for
    p = ctx.run_driver(["np", "-out", t, "-seed", ctx.seed, "-rounds", 40 if thorough else 8, "-iters", 300 if thorough else 120],
                       race=True, env={"GORACE": "exitcode=0"})
    if "WARNING: DATA RACE" in p.stdout:
        import hashlib
        path = os.path.join(os.path.dirname(os.path.dirname(os.path.abspath(__file__))), "replays",
                            "C18-race-%s.txt" % hashlib.sha1(p.stdout[:4000].encode()).hexdigest()[:10])
        os.makedirs(os.path.dirname(path), exist_ok=True)
        open(path, "w").write(p.stdout[-20000:])
        ctx.violations.append((path, "the race detector reported a data race in namepool while names were acquired and released concurrently"))
    s = json.load(open(t + ".summary.json"))
    ctx.validate("", "Trace_NamePool", "Trace_NamePool.cfg", t, label="concurrent histories under the race detector, forced GCs")
    ctx.extra.update(s)
    ctx.assumptions += ["a *Name is used by one goroutine at a time (a concurrent double release of one object is a caller-side data race and is not generated)",
                        "data-race freedom is observed under the race detector (a report aborts the driver = infrastructure error with the report), not decided by the specification",
                        "whether a released id is reused is not an obligation of a trace (sync.Pool may drop it); reuse is checked as reachability in the design model and counted in the evidence"]
    return ctx.finish(rule="U1: 3 goroutines x Acquire/Put/Clear/second release x GC at any point, exhaustive; U3: 1..64 goroutines, 7 formats, GOMAXPROCS 1..16")
