"""C14 - Transport failure yields a clean prefix and then an error."""
import rxcommon


def run(ctx):
    thorough = ctx.tier == "thorough"
    env = {"JUDGE": "C14"}
    if ctx.replay:
        ctx.validate("", "Trace_RxPath", "Trace_RxPath.cfg", ctx.replay, shards=1, label="replay (recorded trace)", extra_env=env)
        return ctx.finish()
    rxcommon.design(ctx, thorough)
    rxcommon.reader_design(ctx)
    # the order of queued packages and the connection's error in NextPackage
    ctx.tlc_mc("", "RecvOrder", "MC_RecvOrder.cfg", workers=2)
    ctx.tlc_expect_violation("", "RecvOrder", "MC_RecvOrder_AsIs.cfg",
                             "pinned NextPackage: the select takes the error of the connection while packages are still queued", workers=2)
    s1 = rxcommon.drive(ctx, "fail0", ["-fail", 60 if thorough else 8, "-failtimeout", 0],
                        "every byte offset x {EOF, reset, timeout, EOF with the last bytes}, read timeout 0 s", env=env)
    s2 = rxcommon.drive(ctx, "fail1", ["-fail", 12 if thorough else 3, "-failtimeout", 1, "-failstep", 7 if thorough else 23],
                        "sampled byte offsets x {EOF, reset, timeout, EOF with the last bytes}, read timeout 1 s", env=env)
    s3 = rxcommon.drive(ctx, "errorder", ["-errorder", 20000 if thorough else 2500],
                        "stress: a polling consumer while a complete packet is followed at once by the end of the stream (order of packages and error)", env=env)
    # failures during a request write: the call that hits the failure reports an error, nothing panics
    import json, os
    t = os.path.join(ctx.scratch, "tx-wfail.ndjson")
    ctx.run_driver(["tx", "-wfail", 2000 if thorough else 250, "-seed", ctx.seed, "-out", t])
    ctx.validate("", "Trace_TxPath", "Trace_TxPath.cfg", t, label="transport failure after k bytes of a request write", extra_env={"JUDGE": "C14"})
    ctx.extra.update({"fail_runs_timeout0": s1["runs"], "fail_runs_timeout1": s2["runs"]})
    ctx.assumptions += [
        "the failing transport keeps returning the same failure for every later read (a dead peer)",
        "'no later than the configured read timeout' is observed with a watchdog of timeout + 4 s; a later error is class 'late' and rejected",
        "failures during a request write: the transport fails after k bytes (random k over the whole message); the failing call must return an error or, if the failure point was not reached, succeed"]
    return ctx.finish(rule="U3: for bounded responses every failure offset 0..len of the byte stream, three failure kinds, random chunkings up to the failure; prefix and values judged against the single-packet reference run")
