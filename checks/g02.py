"""G02 - spec growth beyond the listed properties: tds.Version (parse, compare, bytes) against TdsVersion.tla."""
import os


def run(ctx):
    thorough = ctx.tier == "thorough"
    if ctx.replay:
        ctx.validate("", "Trace_TdsVersion", "Trace_TdsVersion.cfg", ctx.replay, shards=1, label="replay (recorded trace)")
        return ctx.finish()
    ctx.tlc_mc("", "MC_TdsVersion", "MC_TdsVersion.cfg", workers=2)
    t = os.path.join(ctx.scratch, "ver.ndjson")
    ctx.run_driver(["ver", "-out", t, "-seed", ctx.seed, "-count", 4000 if thorough else 400])
    ctx.validate("", "Trace_TdsVersion", "Trace_TdsVersion.cfg", t, label="Compare / String / Bytes / NewVersion / NewVersionString on boundary components and malformed texts")
    ctx.assumptions += ["which parts of a text are integers is decided by strconv.Atoi (trusted)",
                        "NEGWRAP: a negative component is accepted by the code and wraps modulo 256 - modelled as it is (named deviation, no listed property)"]
    return ctx.finish(rule="U1: order laws of Compare on {0,1,255}^4 and parse vectors (ASSUMEs); U3: recorded calls validated by TLC")
