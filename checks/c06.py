"""C06 - Package encodings are self-consistent and match their wire layout."""
import os


def drive(ctx, judge, args, label, heap="3g"):
    t = os.path.join(ctx.scratch, "wire-%s.ndjson" % judge)
    ctx.run_driver(["wire", "-out", t, "-seed", ctx.seed] + args)
    ctx.validate("", "Trace_Wire", "Trace_Wire.cfg", t, label=label, extra_env={"JUDGE": judge}, stack="64m", heap=heap)
    return t


def run(ctx):
    thorough = ctx.tier == "thorough"
    if ctx.replay:
        ctx.validate("", "Trace_Wire", "Trace_Wire.cfg", ctx.replay, shards=1, label="replay (recorded trace)", extra_env={"JUDGE": "C06"}, stack="64m")
        return ctx.finish()
    ctx.tlc_mc("", "MC_Wire", "MC_Wire.cfg", workers=4)
    drive(ctx, "C06", ["-count", 120 if thorough else 14], "all package kinds of LookupPackage (narrow and wide), format packages over all data types, capability bits one by one, login records over field lengths 0..31")
    ctx.assumptions += [
        "Wire.tla is my transcription of the TDS 5.0 layouts (no machine-readable reference offline); integers 0 <= v < 2^31 (TLC's integer range); BLOB excluded",
        "DONEPROC / DONEINPROC and packages with unexported state (ROWFMT, ORDERBY, ENVCHANGE, LOGINACK, format columns) are decoded from the harness's own encoding, which TLC checks against Wire.tla in the same event",
        "data fields of PARAMS / ROW: framing only (status byte, length prefix, NULL <=> zero length); value fidelity is C04/C05 (not applicable)",
        "the order of the capability type blocks (Go map order) is normalised by the harness"]
    return ctx.finish(rule="U1: Wire.tla self-check (Enc is prefix-free per kind on the small domain); U3: one event per package with the field values, TLC computes Enc(kind, f) and compares with the library's bytes / fields")
