"""C07 - Incomplete package data is always reported as 'not enough bytes'."""
import c06


def run(ctx):
    thorough = ctx.tier == "thorough"
    if ctx.replay and '"ev":"Run"' in open(ctx.replay).read():
        ctx.validate("", "Trace_RxPath", "Trace_RxPath.cfg", ctx.replay, shards=1, label="replay (recorded trace)", extra_env={"JUDGE": "C07"})
        return ctx.finish()
    if ctx.replay:
        ctx.validate("", "Trace_Wire", "Trace_Wire.cfg", ctx.replay, shards=1, label="replay (recorded trace)", extra_env={"JUDGE": "C07"}, stack="64m")
        return ctx.finish()
    ctx.tlc_mc("", "MC_Wire", "MC_Wire.cfg", workers=4)
    c06.drive(ctx, "C07", ["-prefix", "-count", 60 if thorough else 8], "every proper prefix of every valid encoding (all kinds, row/parameter data over all data types), then the complete parse on the same queue")
    # the same question where it matters: the channel's parse-or-rollback loop.  Every package kind on its own, cut at
    # every offset; the truncated attempt must leave no trace in what is delivered or in the hooks
    import rxcommon
    sk = rxcommon.drive(ctx, "kinds", ["-kinds", 6 if thorough else 2], "through Channel.WritePacket: every package kind on its own, every 1-cut (delivered values and hook calls as without the cut)", env={"JUDGE": "C07"})
    ctx.extra["channel_level_runs"] = sk["runs"]
    ctx.assumptions += ["prefixes are supplied as one packet of exactly the prefix length (no padding); encodings longer than 4000 bytes are skipped",
                        "the complete parse after a truncated attempt: position restored, the rest added as a second packet, compared by a complete field dump with a fresh parse"]
    return ctx.finish(rule="for every generated valid encoding and every k < len: outcome class of ReadFrom on the first k bytes; TLC requires all of them to be 'need'")
