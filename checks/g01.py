"""G01 - spec growth beyond the listed properties: the statement splitter of the interactive terminal
(term.ParseAndExecQueries) against TermSplit.tla.  Not a listed property: a rejection here is reported as
exit 1 like any other, but no MANIFEST entry refers to it."""
import os


def run(ctx):
    thorough = ctx.tier == "thorough"
    if ctx.replay:
        ctx.validate("", "Trace_TermSplit", "Trace_TermSplit.cfg", ctx.replay, shards=1, label="replay (recorded trace)")
        return ctx.finish()
    ctx.tlc_mc("", "TermSplit", "MC_TermSplit.cfg", workers=4)
    ctx.tlc_mc("", "TermSplit", "MC_TermSplit_Fail.cfg", workers=4)
    ctx.tlc_expect_violation("", "TermSplit", "MC_TermSplit_TailAlways.cfg", "executing an empty rest of the line differs from the contract")
    t = os.path.join(ctx.scratch, "term.ndjson")
    ctx.run_driver(["term", "-out", t, "-seed", ctx.seed, "-maxlen", 5 if thorough else 4, "-count", 3000 if thorough else 300])
    ctx.validate("", "Trace_TermSplit", "Trace_TermSplit.cfg", t, label="every line over {a ; ' \" blank} up to length %d, with and without a failing query, random longer lines" % (5 if thorough else 4))
    ctx.assumptions += ["the executor is a database/sql driver of the harness implementing term.GenericExecer", "the two quote characters close each other (modelled as the code does it)"]
    return ctx.finish(rule="U1: TermSplit.tla (code-shaped character loop) meets its contract Split for all lines up to length 6; U3: recorded calls validated by TLC")
