"""C13 - Cancelled or closed channels never block and never deliver."""
import json, os
from concurrent.futures import ThreadPoolExecutor


def run(ctx):
    thorough = ctx.tier == "thorough"
    if ctx.replay:
        if '"ev":"Chan"' in open(ctx.replay).read():      # a transmit-side trace (sends with cancelled contexts)
            ctx.validate("", "Trace_TxPath", "Trace_TxPath.cfg", ctx.replay, shards=1, label="replay (recorded trace)", extra_env={"JUDGE": "C13"})
            return ctx.finish()
        ctx.validate("", "Trace_Life", "Trace_Life.cfg", ctx.replay, shards=1, label="replay (recorded trace)")
        return ctx.finish()
    # U1: repaired design (close signal) satisfies safety and liveness; the pinned design is refuted
    for cfg in ["MC_Lifecycle.cfg", "MC_Lifecycle_K2.cfg", "MC_Lifecycle_NoAnswer.cfg", "MC_Lifecycle_TwoClosers.cfg", "MC_Lifecycle_Sender.cfg"]:
        ctx.tlc_mc("", "Lifecycle", cfg, workers=4)
    ctx.tlc_expect_violation("", "Lifecycle", "MC_Lifecycle_AsIs.cfg",
                             "pinned lock/queue protocol: Close waits for the write lock behind the reader parked on the full queue")
    ctx.tlc_expect_violation("", "Lifecycle", "MC_Lifecycle_TwoClosers_NoRecheck.cfg",
                             "variant without the second look at `closed` behind the write lock: the later of two overlapping Close calls closes the cleared queues")
    ctx.tlc_expect_violation("", "Lifecycle", "MC_Lifecycle_Sender_Relock.cfg",
                             "pinned SendRemainingPackets: the deferred Reset takes the read lock a second time; with a closer waiting for the write lock in between both wait for ever")
    # U2: stimuli sequences from TLC, replayed on the real channel
    scns = []
    for cfg in ["GenSim_Lifecycle.cfg", "GenSim_Lifecycle_K2.cfg"]:
        g = ctx.tlc_generate("", "Lifecycle", cfg, workers=1, args=["-simulate", "num=%d" % (1500 if thorough else 300), "-depth", "45", "-seed", str(ctx.seed)])
        scns += g["scenarios"]
    seen, uniq = set(), []
    for s in scns:
        k = json.dumps(s, sort_keys=True)
        if k not in seen:
            seen.add(k)
            uniq.append(s)
    import random
    random.Random(ctx.seed).shuffle(uniq)
    uniq = uniq[:400 if thorough else 90]
    f = os.path.join(ctx.scratch, "life-scn.json")
    json.dump(uniq, open(f, "w"))
    parts = 16
    ctx.build_driver(race=False)

    def one(i):
        p = os.path.join(ctx.scratch, "life-%d.ndjson" % i)
        args = ["life", "-out", p, "-seed", ctx.seed, "-scn", f, "-directed", "-count", 600 if thorough else 100, "-part", i, "-parts", parts]
        if thorough:
            args.append("-slow")
        ctx.run_driver(args, race=False, timeout=900)
        return p
    # a peer that never answers the logout: Close returns after the logout's own minute (three scenarios of 60 s each,
    # one process each, running beside everything else)
    def slow(i):
        p = os.path.join(ctx.scratch, "life-slow-%d.ndjson" % i)
        ctx.run_driver(["life", "-out", p, "-seed", ctx.seed, "-directed", "-slowonly", "-part", i, "-parts", 3], race=False, timeout=900)
        return p
    slow_ex = ThreadPoolExecutor(max_workers=3)
    slow_futs = [slow_ex.submit(slow, i) for i in range(3)]
    with ThreadPoolExecutor(max_workers=parts) as ex:
        outs = list(ex.map(one, range(parts)))

    # the directed scenarios once more on a single processor: a goroutine woken by Close then runs only after the
    # closer has gone on (different interleavings of 'signal raised' / 'queues closed' / 'receiver resumes')
    def one1(i):
        p = os.path.join(ctx.scratch, "life1-%d.ndjson" % i)
        ctx.run_driver(["life", "-out", p, "-seed", ctx.seed + 1, "-directed", "-count", 200 if thorough else 40, "-part", i, "-parts", 8],
                       race=False, timeout=900, env={"GOMAXPROCS": "1"})
        return p
    with ThreadPoolExecutor(max_workers=8) as ex:
        outs += list(ex.map(one1, range(8)))
    t = os.path.join(ctx.scratch, "life.ndjson")
    with open(t, "w") as o:
        for p in outs:
            o.write(open(p).read())
    ctx.validate("", "Trace_Life", "Trace_Life.cfg", t, label="TLC stimuli sequences + directed fill levels / cancel / close / Conn.Close + random, watchdog 1.5 s")
    # a send with a cancelled context writes nothing: transmit-side traces (Trace_TxPath rule ~cancelled)
    t2 = os.path.join(ctx.scratch, "tx-cancel.ndjson")
    ctx.run_driver(["tx", "-count", 1500 if thorough else 300, "-seed", ctx.seed + 17, "-out", t2])
    ctx.validate("", "Trace_TxPath", "Trace_TxPath.cfg", t2, label="sends with cancelled contexts write nothing", extra_env={"JUDGE": "C13"})
    ts = os.path.join(ctx.scratch, "life-slow.ndjson")
    with open(ts, "w") as o:
        for fu in slow_futs:
            o.write(open(fu.result()).read())
    slow_ex.shutdown()
    ctx.validate("", "Trace_Life", "Trace_Life.cfg", ts, shards=1, label="a peer that never answers the logout, with and without a read timeout: Close returns within the logout's minute (watchdog 66 s)")
    ctx.extra.update({"tlc_stimuli_sequences": len(uniq)})
    ctx.assumptions += [
        "time is observed with a watchdog: a call that has not returned 1.5 s after the last stimulus is Hung; Close on channel 0 with a peer that never answers the logout is bounded by the library's 1-minute logout context (three scenarios with a 66 s watchdog run beside the others)",
        "'reader ended' = no goroutine of this connection is left in Conn.ReadFrom (goroutine dump), 'transport closed' = Close was called on the harness transport",
        "no known finding is acknowledged any more (the two Close hangs are repaired, known_findings.json): the guarded KF_* actions of Trace_Life are disabled and every hung Close is a violation"]
    return ctx.finish(rule="U1: RWMutex with writer preference, bounded queue, reader/consumer/closer/canceller, K in {1,2}, safety + liveness under weak fairness; pinned protocol refuted; U2/U3 as labelled")
