"""C01 - Outgoing messages are well-formed TDS packet sequences."""
import json, os


def run(ctx):
    thorough = ctx.tier == "thorough"
    if ctx.replay:
        return replay(ctx)
    ctx.tlc_mc("", "TxPath", "MC_TxPath_thorough.cfg" if thorough else "MC_TxPath.cfg", workers=8, heap="8g")
    ctx.tlc_expect_violation("", "TxPath", "MC_TxPath_AsIs.cfg", "pinned algorithm: no EOM at exact multiples of the body size")
    ctx.tlc_mc("", "TxPath", "MC_TxPath_Abort.cfg", workers=8, heap="8g")
    ctx.tlc_expect_violation("", "TxPath", "MC_TxPath_Abort_NoReset.cfg",
                             "variant that resets the channel only after a successful flush: residue reaches the next message")
    ctx.tlc_expect_violation("", "TxPath", "MC_TxPath_Abort_NoEomCtx.cfg",
                             "variant without a context check before the terminating empty packet (C13: writes with a cancelled context)")
    ctx.tlc_expect_violation("", "TxPath", "MC_TxPath_Abort_ResetClearsOpen.cfg",
                             "variant whose Reset clears txMsgOpen: the flush repeated after one that was given up no longer terminates the message")
    g1 = ctx.tlc_generate("", "TxPath", "Gen_TxPath_thorough.cfg" if thorough else "Gen_TxPath.cfg", workers=4)
    g2 = ctx.tlc_generate("", "TxPath", "GenSim_TxPath.cfg", workers=4,
                          args=["-simulate", "num=%d" % (1500 if thorough else 200), "-depth", "13", "-seed", str(ctx.seed)])
    g3 = ctx.tlc_generate("", "TxPath", "GenSim_TxPath_Abort.cfg", workers=4,
                          args=["-simulate", "num=%d" % (1500 if thorough else 200), "-depth", "13", "-seed", str(ctx.seed + 7)])
    scns = g1["scenarios"] + g2["scenarios"] + g3["scenarios"]
    f = os.path.join(ctx.scratch, "tx-scn.json")
    json.dump(scns, open(f, "w"))
    t1 = os.path.join(ctx.scratch, "tx-u2.ndjson")
    ctx.run_driver(["tx", "-scn", f, "-out", t1])
    s1 = json.load(open(t1 + ".summary.json"))
    ctx.validate("", "Trace_TxPath", "Trace_TxPath.cfg", t1, label="TLC-generated behaviours (body sizes 2..5)", extra_env={"JUDGE": "C01"})
    t2 = os.path.join(ctx.scratch, "tx-dir.ndjson")
    if thorough:
        # every packet size 256..65535, boundary lengths, in parallel slices
        import concurrent.futures as cf
        parts = []
        step = 4080
        rngs = [(a, min(a + step - 1, 65535)) for a in range(256, 65536, step)]
        def one(i):
            a, b = rngs[i]
            p = os.path.join(ctx.scratch, "tx-dir-%d.ndjson" % i)
            ctx.run_driver(["tx", "-directed", "all:%d:%d" % (a, b), "-seed", ctx.seed + i, "-out", p])
            return p
        with cf.ThreadPoolExecutor(max_workers=16) as ex:
            parts = list(ex.map(one, range(len(rngs))))
        tot = {"scenarios": 0, "messages": 0, "packets": 0}
        with open(t2, "w") as out:
            for p in parts:
                out.write(open(p).read())
                s = json.load(open(p + ".summary.json"))
                for k in tot:
                    tot[k] += s[k]
                os.unlink(p)
        s2 = tot
    else:
        ctx.run_driver(["tx", "-directed", "quick", "-seed", ctx.seed, "-out", t2])
        s2 = json.load(open(t2 + ".summary.json"))
    ctx.validate("", "Trace_TxPath", "Trace_TxPath.cfg", t2, label="directed k*(ps-8)+d, all call splits", extra_env={"JUDGE": "C01"})
    t3 = os.path.join(ctx.scratch, "tx-rand.ndjson")
    ctx.run_driver(["tx", "-count", 4000 if thorough else 400, "-seed", ctx.seed, "-out", t3])
    s3 = json.load(open(t3 + ".summary.json"))
    ctx.validate("", "Trace_TxPath", "Trace_TxPath.cfg", t3, label="random messages, packet sizes 9..65535", extra_env={"JUDGE": "C01"})
    ctx.extra.update({"u2_scenarios": s1["scenarios"], "model_drift_steps": s1["drift"],
                      "directed_messages": s2["messages"], "directed_packets": s2["packets"],
                      "random_messages": s3["messages"], "random_packets": s3["packets"]})
    ctx.assumptions += [
        "the packet size in force is the size announced by a genuine ENVCHANGE(PACKSIZE) fed through Channel.WritePacket (256..65535; for the tiny sizes of the TLC scope, outside that range, what Conn.PacketSize() reports)",
        "content check: each observed packet body is compared with the harness's own copy of the queued encodings at the observed offset (field clean)",
        "channel 0; logical channels > 0 are exercised by the C12 check",
        "a message in which a call failed (cancelled context) is not judged until the next flush (outside C01's quantifier); the message after an abandoned flush is judged in full (nothing left behind)"]
    return ctx.finish(rule="U1 exhaustive small scope; U2 all behaviours of the small scope; U3 every boundary length at selected/all packet sizes")


def replay(ctx):
    lines = open(ctx.replay).read().splitlines()
    desc = json.loads(json.loads(lines[0])["desc"])
    t = os.path.join(ctx.scratch, "tx-replay.ndjson")
    ctx.run_driver(["tx", "-desc", json.dumps(desc), "-out", t])
    ctx.validate("", "Trace_TxPath", "Trace_TxPath.cfg", t, shards=1, label="replay", extra_env={"JUDGE": "C01"})
    return ctx.finish()
