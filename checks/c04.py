"""C04 - Field values survive encoding and decoding unchanged."""
from dtcommon import run_dt


def run(ctx):
    run_dt(ctx, "C04")
    return ctx.finish(level="exploration", rule="evaluations = codec calls of the real library recorded and judged by TLC (Same); distinct_nontrivial = scenario groups (data type x kind of call) validated; " + "U1: DataTypes.tla self-check (calendar against day counting, documented limits, multi-byte arithmetic); "
                           "U3: one event per evaluation of the real codecs; TLC requires Same(type, value, value read back) for every round trip "
                           "through DataType.Bytes/GoValue and through a PARAMFMT/PARAMS pair")
