package main

import (
	"flag"
	"fmt"
	"math/rand"
	"reflect"
	"sort"
	"strconv"
	"strings"

	"github.com/SAP/go-dblib/dsn"
)

func init() { families["dsn"] = dsnMain }

type dsnEmb struct {
	Opt  string `json:"opt" multiref:"option,o"`
	Flag bool   `json:"flag,string"`
	Num  int    `json:"num" multiref:"n"`
}

// dsnT is a tds.Info-like target: dsn.Info embedded, a further embedded struct, text / bool / int
// properties, aliases.
type dsnT struct {
	dsn.Info
	dsnEmb
	App     string `json:"app-name" multiref:"app"`
	TLS     bool   `json:"tls"`
	Timeout int    `json:"timeout,omitempty"` // a tag with options: the options are not names of the field
	NoTag   string
}

// dsnTiny is Info-like too (ParseURI needs the host / port / user / password fields) and has
// one-letter tags so that short strings hit real keys.
type dsnTiny struct {
	dsn.Info
	A string `json:"a" multiref:"b"`
	N int    `json:"n"`
	F bool   `json:"f"`
}

// canonical field names (the first json name) and their kind, as the Trace_Dsn table has them
var dsnFields = []string{"app-name", "database", "flag", "host", "num", "opt", "password", "port", "timeout", "tls", "username"}
var dsnKind = map[string]string{"app-name": "s", "database": "s", "flag": "b", "host": "s", "num": "i", "opt": "s",
	"password": "s", "port": "s", "timeout": "i", "tls": "b", "username": "s"}
var dsnKeys = []string{"app-name", "app", "database", "db", "flag", "host", "hostname", "num", "n", "opt", "option", "o",
	"password", "passwd", "pass", "port", "timeout", "tls", "username", "user"}
var dsnUnknown = []string{"bogus", "Host", "NoTag", "hostt", "", "user name", "key", "omitempty", "string", "timeout,omitempty"}

func dsnDump(t *dsnT) [][]string {
	m := map[string]string{"app-name": t.App, "database": t.Database, "flag": strconv.FormatBool(t.Flag), "host": t.Host,
		"num": strconv.Itoa(t.Num), "opt": t.Opt, "password": t.Password, "port": t.Port, "timeout": strconv.Itoa(t.Timeout),
		"tls": strconv.FormatBool(t.TLS), "username": t.Username}
	var out [][]string
	for _, f := range dsnFields {
		out = append(out, []string{f, m[f]})
	}
	return out
}

func safeCall(f func() error) (st string) {
	defer func() {
		if r := recover(); r != nil {
			st = "panic"
		}
	}()
	if err := f(); err != nil {
		return "err"
	}
	return "ok"
}

// documented alphabet of the simple form: no quotes, no backslash, no control characters
const dsnAlpha = "abcxyzABC0129 =-._:/@%+,;!?#*()[]{}<>|~^&$"

func dsnValue(rng *rand.Rand, unicode bool) string {
	switch rng.Intn(10) {
	case 0:
		return ""
	case 1:
		return " "
	case 2:
		return " a"
	case 3:
		return "a "
	case 4:
		return "a  b"
	case 5:
		return "a=b"
	}
	n := 1 + rng.Intn(10)
	var sb strings.Builder
	for i := 0; i < n; i++ {
		if unicode && rng.Intn(5) == 0 {
			rs := []rune("äßπ漢字😀éÑ")
			sb.WriteRune(rs[rng.Intn(len(rs))])
		} else if unicode && rng.Intn(12) == 0 {
			// neither quotes, backslashes nor control characters (category Cc), but not "printable" for
			// Go's %q: no-break space, zero width space, soft hyphen, line separator, ideographic space,
			// byte order mark, an unassigned code point, a private use one, the last code point
			rs := []rune{0x00A0, 0x200B, 0x00AD, 0x2028, 0x3000, 0xFEFF, 0x0378, 0xE000, 0x10FFFF}
			sb.WriteRune(rs[rng.Intn(len(rs))])
		} else {
			sb.WriteByte(dsnAlpha[rng.Intn(len(dsnAlpha))])
		}
	}
	return sb.String()
}

// full-Unicode text for the URI form: any text, incl. quotes, backslashes, URI metacharacters
func uriValue(rng *rand.Rand) string {
	switch rng.Intn(8) {
	case 0:
		return ""
	case 1:
		return "MONKEY" // contains the substring KEY
	case 2:
		return "a b&c=d?e#f/g%h"
	case 3:
		return "p@ss:w\"or'd\\"
	}
	n := 1 + rng.Intn(12)
	rs := []rune("abcXYZ019 &=?#/%:@+\"'\\\t\n;,<>äπ漢😀  ")
	var sb strings.Builder
	for i := 0; i < n; i++ {
		sb.WriteRune(rs[rng.Intn(len(rs))])
	}
	return sb.String()
}

func dsnMain(args []string) error {
	fs := flag.NewFlagSet("dsn", flag.ExitOnError)
	out := fs.String("out", "dsn.ndjson", "trace file")
	seed := fs.Int64("seed", 1, "seed")
	count := fs.Int("count", 400, "cases per driver")
	maxlen := fs.Int("maxlen", 5, "totality: all strings up to this length")
	fs.Parse(args)
	tr, err := NewTracer(*out)
	if err != nil {
		return err
	}
	rng := rand.New(rand.NewSource(*seed))

	// (1) item-level scenarios of the simple form
	for i := 0; i < *count; i++ {
		if i%200 == 0 {
			tr.Reset(map[string]interface{}{"driver": "dsn-simple", "i": i})
		}
		n := 1 + rng.Intn(6)
		var items [][]string
		var parts []string
		for j := 0; j < n; j++ {
			key := dsnKeys[rng.Intn(len(dsnKeys))]
			if rng.Intn(25) == 0 {
				key = dsnUnknown[rng.Intn(len(dsnUnknown))]
			}
			if rng.Intn(60) == 0 {
				key = "" // the empty key matches no field
			}
			if strings.Contains(key, " ") {
				key = "bogus"
			}
			var val string
			canon := key
			if f, ok := reflect.TypeOf(dsnT{}), true; ok {
				_ = f
			}
			kind := dsnKindOfKey(key)
			switch kind {
			case "b":
				val = []string{"true", "false"}[rng.Intn(2)]
			case "i":
				val = strconv.Itoa(rng.Intn(2000) - 1000)
				if rng.Intn(4) == 0 { // the whole range of an int field
					val = []string{"2147483647", "2147483648", "-2147483648", "-2147483649", "4294967296", "9223372036854775807", "-9223372036854775808"}[rng.Intn(7)]
				}
			default:
				val = dsnValue(rng, true)
				if kind == "" && rng.Intn(2) == 0 {
					// a key that matches no field, with a value every field kind would take
					val = []string{"1", "0", "true"}[rng.Intn(3)]
				}
			}
			_ = canon
			q := ""
			if val == "" || strings.Contains(val, " ") || rng.Intn(3) == 0 {
				q = []string{"'", "\""}[rng.Intn(2)]
			}
			items = append(items, []string{key, val, q})
			parts = append(parts, key+"="+q+val+q)
		}
		text := strings.Join(parts, " ")
		t := &dsnT{}
		via := rng.Intn(2)
		st := safeCall(func() error {
			if via == 0 {
				return dsn.ParseSimple(text, t)
			}
			return dsn.Parse(text, t)
		})
		tr.Emit(Ev{"ev": "Simple", "items": items, "text": text, "st": st, "out": dsnDump(t)})
	}

	// (2) round trips: FormatSimple -> ParseSimple, FormatURI -> ParseURI
	for i := 0; i < *count; i++ {
		if i%200 == 0 {
			tr.Reset(map[string]interface{}{"driver": "dsn-roundtrip", "i": i})
		}
		for _, form := range []string{"simple", "uri"} {
			t := &dsnT{}
			val := func() string {
				if form == "uri" {
					return uriValue(rng)
				}
				return dsnValue(rng, true)
			}
			t.Username, t.Password, t.Database, t.Opt, t.App = val(), val(), val(), val(), val()
			if form == "uri" {
				t.Host = []string{"localhost", "db.example.com", "10.0.0.7", ""}[rng.Intn(4)]
				t.Port = []string{"5000", "443", "", "30015"}[rng.Intn(4)]
			} else {
				t.Host, t.Port = val(), val()
			}
			t.Flag, t.TLS = rng.Intn(2) == 0, rng.Intn(2) == 0
			t.Num, t.Timeout = rng.Intn(4001)-2000, rng.Intn(100)
			if rng.Intn(3) == 0 { // the whole range of an int field
				t.Num = []int{2147483647, 2147483648, -2147483648, -2147483649, 1 << 40, 9223372036854775807, -9223372036854775808}[rng.Intn(7)]
			}
			back := &dsnT{}
			var text string
			st := safeCall(func() error {
				if form == "simple" {
					text = dsn.FormatSimple(t)
					return dsn.ParseSimple(text, back)
				}
				var err error
				text, err = dsn.FormatURI(t)
				if err != nil {
					return err
				}
				return dsn.ParseURI(text, back)
			})
			tr.Emit(Ev{"ev": "RT", "form": form, "fields": dsnDump(t), "text": text, "st": st, "out": dsnDump(back)})
		}
	}

	// (3) URI form: the last value of a repeated key wins, unknown keys are rejected
	tr.Reset(map[string]interface{}{"driver": "dsn-uri-override"})
	for i := 0; i < *count/2; i++ {
		k := []string{"opt", "option", "app", "app-name", "db", "database"}[rng.Intn(6)]
		v1, v2 := "v"+strconv.Itoa(rng.Intn(100)), "w"+strconv.Itoa(rng.Intn(100))
		text := fmt.Sprintf("ase://u:p@h:1/?%s=%s&%s=%s", k, v1, k, v2)
		unknown := rng.Intn(6) == 0
		if unknown {
			text += []string{"&nosuchkey=1", "&=1", "&nosuchkey=1", "&Opt=1"}[rng.Intn(4)]
		}
		t := &dsnT{}
		st := safeCall(func() error { return dsn.Parse(text, t) })
		tr.Emit(Ev{"ev": "UriLast", "key": k, "last": v2, "unknown": unknown, "st": st, "out": dsnDump(t)})
	}

	// (4) totality: every string up to maxlen over an alphabet of quotes, spaces, '=', key
	// letters and URI metacharacters, through Parse, ParseSimple and ParseURI
	tr.Reset(map[string]interface{}{"driver": "dsn-total", "maxlen": *maxlen})
	alpha := []byte("'\" =abn1-\\:/?%&@")
	var rec func(prefix []byte)
	batchN, batchPanic, batchOK := 0, 0, 0
	firstPanic := ""
	flush := func() {
		if batchN > 0 {
			tr.Emit(Ev{"ev": "Total", "n": batchN, "panics": batchPanic, "ok": batchOK, "first": firstPanic})
		}
		batchN, batchPanic, batchOK, firstPanic = 0, 0, 0, ""
	}
	try := func(s string) {
		for k := 0; k < 3; k++ {
			t := &dsnTiny{}
			st := safeCall(func() error {
				switch k {
				case 0:
					return dsn.Parse(s, t)
				case 1:
					return dsn.ParseSimple(s, t)
				}
				return dsn.ParseURI(s, t2info())
			})
			batchN++
			if st == "panic" {
				batchPanic++
				if firstPanic == "" {
					firstPanic = s
				}
			}
			if st == "ok" {
				batchOK++
			}
		}
		if batchN >= 3000 {
			flush()
		}
	}
	rec = func(prefix []byte) {
		try(string(prefix))
		if len(prefix) == *maxlen {
			return
		}
		for _, c := range alpha {
			rec(append(prefix, c))
		}
	}
	rec(nil)
	// random longer strings
	for i := 0; i < *count*20; i++ {
		n := *maxlen + 1 + rng.Intn(12-*maxlen)
		b := make([]byte, n)
		for j := range b {
			b[j] = alpha[rng.Intn(len(alpha))]
		}
		try(string(b))
	}
	flush()
	return tr.Close()
}

func t2info() *dsn.Info { return &dsn.Info{} }

func dsnKindOfKey(key string) string {
	canon := map[string]string{"app": "app-name", "db": "database", "hostname": "host", "n": "num", "option": "opt", "o": "opt",
		"passwd": "password", "pass": "password", "user": "username"}
	if c, ok := canon[key]; ok {
		key = c
	}
	return dsnKind[key]
}

var _ = sort.Strings
