package main

import (
	"context"
	"encoding/binary"
	"flag"
	"fmt"
	"math/rand"
	"runtime"
	"strings"
	"sync"
	"time"

	"github.com/SAP/go-dblib/tds"
)

func init() { families["mux"] = muxMain }

// muxPeer is the scripted server of a multiplexed connection: it acknowledges channel setups,
// answers every client message on a channel with `replies` packages for that channel, and feeds
// its packets in a random interleaving across channels (per-channel order kept).
type muxPeer struct {
	mc      *memConn
	tr      *Tracer
	mu      sync.Mutex
	rng     *rand.Rand
	buf     []byte
	pending map[int][][]byte // per channel: packets waiting to be fed
	order   []int
	nextVal int
	wake    chan struct{}
	stop    chan struct{}
	replies int
	split   bool
	// eager: a channel setup is acknowledged while the client is still inside the Write of its setup
	// packet, and the Write returns only after the reader goroutine had time to route the acknowledgement
	eager bool
}

func (p *muxPeer) onWrite(b []byte) {
	p.mu.Lock()
	p.buf = append(p.buf, b...)
	for len(p.buf) >= 8 {
		hl := int(binary.BigEndian.Uint16(p.buf[2:4]))
		if hl < 8 || hl > len(p.buf) {
			break
		}
		typ, st, ch, nr := int(p.buf[0]), int(p.buf[1]), int(binary.BigEndian.Uint16(p.buf[4:6])), int(p.buf[6])
		p.buf = p.buf[hl:]
		p.tr.Emit(Ev{"ev": "PeerSaw", "chan": ch, "typ": typ, "nr": nr, "n": hl - 8, "eom": st&1 == 1})
		switch {
		case typ == 8 && p.eager:
			p.mc.Feed(mkPacket(11, 1, ch, (ch*37)%256, nil)) // the acknowledgement's own packet number is the peer's business
			time.Sleep(3 * time.Millisecond)
		case typ == 8: // TDS_BUF_SETUP: acknowledge with a header-only PROTACK packet
			p.pending[ch] = append(p.pending[ch], mkPacket(11, 1, ch, (ch*37)%256, nil))
		case typ == 9: // TDS_BUF_CLOSE
		case st&1 == 1 && hl > 8: // a complete client message: answer it
			for i := 0; i < p.replies; i++ {
				p.nextVal++
				v := p.nextVal
				body := append(encRetStat(int32(v)).Bytes, encDone(tokDone, 0, 0, 0).Bytes...)
				if p.rng.Intn(4) == 0 {
					// the server confirms the packet size in force: handled by this channel's reader path while
					// other goroutines send on other channels (they read the same connection setting)
					body = append(encEnv([][3]string{{"\x04", "512", "512"}}).Bytes, body...)
				}
				p.tr.Emit(Ev{"ev": "PeerSend", "chan": ch, "val": v})
				if p.split && p.rng.Intn(2) == 0 {
					c := 1 + p.rng.Intn(len(body)-1)
					p.pending[ch] = append(p.pending[ch], mkPacket(4, 0, ch, 0, body[:c]), mkPacket(4, 1, ch, 0, body[c:]))
				} else {
					p.pending[ch] = append(p.pending[ch], mkPacket(4, 1, ch, 0, body))
				}
			}
		}
	}
	p.mu.Unlock()
	select {
	case p.wake <- struct{}{}:
	default:
	}
}

// feeder feeds pending packets in a random interleaving across channels.
func (p *muxPeer) feeder() {
	for {
		p.mu.Lock()
		var chans []int
		for c, q := range p.pending {
			if len(q) > 0 {
				chans = append(chans, c)
			}
		}
		if len(chans) > 0 {
			// deterministic choice set order
			for i := 0; i < len(chans); i++ {
				for j := i + 1; j < len(chans); j++ {
					if chans[j] < chans[i] {
						chans[i], chans[j] = chans[j], chans[i]
					}
				}
			}
			c := chans[p.rng.Intn(len(chans))]
			pk := p.pending[c][0]
			p.pending[c] = p.pending[c][1:]
			p.mu.Unlock()
			p.mc.Feed(pk)
			continue
		}
		p.mu.Unlock()
		select {
		case <-p.wake:
		case <-p.stop:
			return
		case <-time.After(20 * time.Millisecond):
		}
	}
}

var muxEager bool

// muxQueue > 0: capacity of every channel's package queue for the next scenario (small: the reader has to
// wait for slow consumers and must keep the order while it does)
var muxQueue int

func muxScenario(tr *Tracer, rng *rand.Rand, nchan, msgs, replies, procs int, unknown int) {
	old := runtime.GOMAXPROCS(procs)
	defer runtime.GOMAXPROCS(old)
	tr.Reset(map[string]interface{}{"driver": "mux", "channels": nchan, "msgs": msgs, "replies": replies, "gomaxprocs": procs})
	mc := newMemConn()
	info := newInfo()
	info.ChannelPackageQueueSize = 64
	if muxQueue > 0 {
		info.ChannelPackageQueueSize = muxQueue
	}
	conn, err := tds.NewConnWithTransport(context.Background(), mc, info, true)
	if err != nil {
		panic(err)
	}
	peer := &muxPeer{mc: mc, tr: tr, rng: rand.New(rand.NewSource(rng.Int63())), pending: map[int][][]byte{},
		wake: make(chan struct{}, 1), stop: make(chan struct{}), replies: replies, split: true, eager: muxEager}
	mc.onWrite = peer.onWrite
	go peer.feeder()
	ch0, err := conn.NewChannel()
	if err != nil {
		panic(err)
	}
	tr.Emit(Ev{"ev": "NewChan", "g": 0, "ok": true, "id": 0, "err": ""})
	var wg sync.WaitGroup
	var closedMu sync.Mutex
	var closedIDs []int
	start := make(chan struct{})
	worker := func(g int, ch *tds.Channel, id int, grng *rand.Rand) {
		for m := 0; m < msgs; m++ {
			cmd := fmt.Sprintf("select %d from c%d", m, id)
			if grng.Intn(3) == 0 {
				cmd += strings.Repeat(" ", 600) // several packets
			}
			if g == 1 && m == 0 {
				cmd += strings.Repeat(" ", 504*270) // more than 256 packets: the packet number wraps
			}
			if err := ch.SendPackage(context.Background(), &tds.LanguagePackage{Cmd: cmd}); err != nil {
				tr.Emit(Ev{"ev": "SendErr", "chan": id, "text": err.Error()})
				return
			}
			if muxQueue > 0 {
				time.Sleep(15 * time.Millisecond) // a slow consumer: the answers pile up in front of the small queue
			}
			for got, dones := 0, 0; got < replies || dones < replies; {
				ctx, cancel := context.WithTimeout(context.Background(), 4*time.Second)
				pkg, err := ch.NextPackage(ctx, true)
				cancel()
				if err != nil {
					tr.Emit(Ev{"ev": "RecvErr", "chan": id, "text": err.Error()})
					return
				}
				if rs, ok := pkg.(*tds.ReturnStatusPackage); ok {
					tr.Emit(Ev{"ev": "Recv", "chan": id, "val": int(muxRetVal(rs))})
					got++
				}
				if _, ok := pkg.(*tds.DonePackage); ok {
					dones++
				}
			}
			if grng.Intn(4) == 0 {
				runtime.Gosched()
			}
		}
	}
	for g := 1; g <= nchan; g++ {
		wg.Add(1)
		grng := rand.New(rand.NewSource(rng.Int63()))
		go func(g int) {
			defer wg.Done()
			<-start
			type res struct {
				ch  *tds.Channel
				err error
			}
			rc := make(chan res, 1)
			go func() {
				ch, err := conn.NewChannel()
				rc <- res{ch, err}
			}()
			var r res
			select {
			case r = <-rc:
			case <-time.After(4 * time.Second):
				tr.Emit(Ev{"ev": "NewChan", "g": g, "ok": false, "id": -1, "err": "no answer within 4s"})
				return
			}
			if r.err != nil {
				tr.Emit(Ev{"ev": "NewChan", "g": g, "ok": false, "id": -1, "err": r.err.Error()})
				return
			}
			id := muxChanID(r.ch)
			tr.Emit(Ev{"ev": "NewChan", "g": g, "ok": true, "id": id, "err": ""})
			worker(g, r.ch, id, grng)
			if grng.Intn(3) == 0 {
				done := make(chan error, 1)
				go func() { done <- r.ch.Close() }()
				select {
				case <-done:
					tr.Emit(Ev{"ev": "Closed", "chan": id})
					closedMu.Lock()
					closedIDs = append(closedIDs, id)
					closedMu.Unlock()
				case <-time.After(4 * time.Second):
					tr.Emit(Ev{"ev": "CloseHung", "chan": id})
				}
			}
		}(g)
	}
	// channel 0 works concurrently as well
	wg.Add(1)
	go func() {
		defer wg.Done()
		<-start
		worker(0, ch0, 0, rand.New(rand.NewSource(rng.Int63())))
	}()
	close(start)
	wg.Wait()
	// packets for channels that do not exist: a connection error each, nothing else changes
	// (two in a row for the same id, behind a packet for a channel that does exist: the second one is as
	// unknown as the first)
	legit := 0
	for i := 0; i < unknown; i++ {
		c := 500 + i/2
		if i%2 == 0 {
			mc.Feed(mkPacket(4, 1, 0, 0, append(encRetStat(7777).Bytes, encDone(tokDone, 0, 0, 0).Bytes...)))
			legit += 2 // the return status and the final DONE
		}
		tr.Emit(Ev{"ev": "PeerSendUnknown", "chan": c})
		mc.Feed(strayPacket(i, c))
	}
	// a channel that was closed does not exist any more either
	for i, c := range closedIDs {
		if i >= 3 {
			break
		}
		tr.Emit(Ev{"ev": "PeerSendUnknown", "chan": c})
		mc.Feed(strayPacket(i+1, c))
		unknown++
	}
	errs := 0
	for i := 0; i < unknown+2+legit; i++ {
		ctx, cancel := context.WithTimeout(context.Background(), 300*time.Millisecond)
		pkg, err := ch0.NextPackage(ctx, true)
		cancel()
		if rs, ok := pkg.(*tds.ReturnStatusPackage); ok && err == nil && muxRetVal(rs) == 7777 {
			continue // channel 0's own packet
		}
		if _, ok := pkg.(*tds.DonePackage); ok && err == nil && legit > 0 {
			continue // ... and the final DONE behind it
		}
		if err != nil && strings.Contains(err.Error(), "invalid channel") {
			errs++
		} else if err == nil {
			tr.Emit(Ev{"ev": "StrayRecv", "kind": fmt.Sprintf("%T", pkg)})
		}
	}
	tr.Emit(Ev{"ev": "ConnErrs", "n": errs, "unknown": unknown})
	close(peer.stop)
	mc.Close()
}

// strayPacket: what a peer may address to a channel that does not exist - a response packet, or a
// header-only packet of the channel protocol (a late acknowledgement, a setup, a teardown)
func strayPacket(i, c int) []byte {
	switch i % 6 {
	case 1:
		return mkPacket(11, 1, c, 0, nil) // PROTACK
	case 2:
		return mkPacket(9, 1, c, 0, nil) // CLOSE
	case 3:
		return mkPacket(8, 1, c, 0, nil) // SETUP
	case 4:
		return mkPacket(15, 1, c, 0, nil) // NORMAL
	case 5:
		return mkPacket(4, 1, c, 0, nil) // header-only RESPONSE
	}
	return mkPacket(4, 1, c, 0, encRetStat(1).Bytes)
}

func muxStrays(i int, rng *rand.Rand) int {
	if i == 0 {
		return 6
	}
	return rng.Intn(7)
}

func muxRetVal(p *tds.ReturnStatusPackage) int32 { return p.ReturnValue }

func muxChanID(ch *tds.Channel) int { return ch.VerifChannelID() }

func muxMain(args []string) error {
	fs := flag.NewFlagSet("mux", flag.ExitOnError)
	out := fs.String("out", "mux.ndjson", "trace file")
	seed := fs.Int64("seed", 1, "seed")
	rounds := fs.Int("rounds", 6, "scenarios")
	fs.Parse(args)
	tr, err := NewTracer(*out)
	if err != nil {
		return err
	}
	rng := rand.New(rand.NewSource(*seed))
	for i := 0; i < *rounds; i++ {
		nchan := []int{1, 2, 3, 8, 16}[rng.Intn(5)]
		if i == 0 {
			nchan = 16
		}
		procs := []int{1, 2, 4, 16}[rng.Intn(4)]
		muxEager = i == 1 || rng.Intn(3) == 0
		muxQueue = 0
		replies := 1 + rng.Intn(3)
		if i == 2 || rng.Intn(4) == 0 {
			muxQueue = 1 + rng.Intn(3)
			replies = 6 + rng.Intn(6)
			if nchan > 4 {
				nchan = 4
			}
		}
		muxScenario(tr, rng, nchan, 2+rng.Intn(4), replies, procs, muxStrays(i, rng))
	}
	return tr.Close()
}
