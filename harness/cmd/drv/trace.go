package main

import (
	"bufio"
	"encoding/json"
	"os"
	"sync"
	"sync/atomic"
)

// Ev is one NDJSON event.
type Ev map[string]interface{}

// Tracer writes NDJSON events. Events of concurrent drivers carry a process-wide sequence
// number taken by Stamp (R2 in DESIGN.md); Emit itself only serialises the write.
type Tracer struct {
	mu  sync.Mutex
	f   *os.File
	w   *bufio.Writer
	sc  int
	seq uint64
	n   int
}

func NewTracer(path string) (*Tracer, error) {
	f, err := os.Create(path)
	if err != nil {
		return nil, err
	}
	return &Tracer{f: f, w: bufio.NewWriterSize(f, 1<<20)}, nil
}

// Stamp returns the next process-wide sequence number.
func (t *Tracer) Stamp() uint64 { return atomic.AddUint64(&t.seq, 1) }

// Reset starts a new scenario.
func (t *Tracer) Reset(desc interface{}) {
	t.mu.Lock()
	t.sc++
	t.mu.Unlock()
	d, _ := json.Marshal(desc)
	t.Emit(Ev{"ev": "Reset", "desc": string(d)})
}

func (t *Tracer) Emit(e Ev) {
	t.mu.Lock()
	defer t.mu.Unlock()
	e["sc"] = t.sc
	b, err := json.Marshal(e)
	if err != nil {
		panic(err)
	}
	t.w.Write(b)
	t.w.WriteByte('\n')
	t.n++
}

func (t *Tracer) Close() error {
	t.mu.Lock()
	defer t.mu.Unlock()
	if err := t.w.Flush(); err != nil {
		return err
	}
	return t.f.Close()
}

func ints(bs []byte) []int {
	r := make([]int, len(bs))
	for i, b := range bs {
		r[i] = int(b)
	}
	return r
}

// writeSummary writes a small JSON summary next to the trace (counts the orchestrator puts into
// the evidence file).
func writeSummary(path string, v interface{}) {
	b, _ := json.MarshalIndent(v, "", " ")
	os.WriteFile(path, b, 0o644)
}
