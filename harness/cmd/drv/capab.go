package main

import (
	"flag"
	"fmt"
	"math/rand"
	"strconv"
	"strings"

	"github.com/SAP/go-dblib/capability"
)

func init() { families["cap"] = capMain }

// an order-preserving grid of semantic versions (pre-release and build suffixes included); the
// driver checks the table against the comparer itself (event Grid).
var capGrid = []string{"0.9.0", "1.0.0-alpha", "1.0.0-beta.2", "1.0.0", "1.0.1+build.5", "1.2.0", "1.10.0",
	"2.0.0-rc1", "2.0.0", "2.1.3", "10.0.0", "16.0.3"}
var capBuildAlias = map[int]string{4: "1.0.0+exp.sha.5114f85", 6: "1.2.0+b1"}
var capBad = []string{"not-a-version", "1.x", "v..2", "1.0.0.0.0.0.0.0.0.a",
	// a version whose only defect is its pre-release or build suffix is unparsable all the same
	"1.5.0+", "1.5.0+a..b", "1.5.0+?", "1.5.0+b+c", "1.5.0-a..b", "1.5.0+b ", "1.5.0-rc_1", "1.5.0+\u00e9"}

// capForceBad: when set, every unparsable version / bound of the evaluation is this very text (a version
// that is unparsable in the same way as a bound - identical strings - is still unparsable)
var capForceBad string

func capStr(rng *rand.Rand, pos int) string {
	switch {
	case pos == 0:
		return ""
	case pos < 0:
		if capForceBad != "" {
			return capForceBad
		}
		return capBad[rng.Intn(len(capBad))]
	}
	if a, ok := capBuildAlias[pos]; ok && rng.Intn(2) == 0 {
		return a
	}
	return capGrid[pos-1]
}

// custom comparer: versions are written "p<k>" for grid position k
func capCustom(a, b string) (int, error) {
	pa, err := strconv.Atoi(strings.TrimPrefix(a, "p"))
	if err != nil || !strings.HasPrefix(a, "p") {
		return 0, fmt.Errorf("bad version %q", a)
	}
	pb, err := strconv.Atoi(strings.TrimPrefix(b, "p"))
	if err != nil || !strings.HasPrefix(b, "p") {
		return 0, fmt.Errorf("bad version %q", b)
	}
	switch {
	case pa < pb:
		return -1, nil
	case pa > pb:
		return 1, nil
	}
	return 0, nil
}

func capCustomStr(pos int) string {
	switch {
	case pos == 0:
		return ""
	case pos < 0:
		return "zzz"
	}
	return "p" + strconv.Itoa(pos)
}

func capEval(tr *Tracer, rng *rand.Rand, caps [][][2]int, v int, custom bool, viaNew bool) {
	str := func(p int) string {
		if custom {
			return capCustomStr(p)
		}
		return capStr(rng, p)
	}
	capForceBad = ""
	if v < 0 && rng.Intn(2) == 0 {
		capForceBad = capBad[rng.Intn(len(capBad))]
	}
	defer func() { capForceBad = "" }()
	t := capability.Target{}
	if custom {
		t.VersionComparer = capCustom
	}
	var cs []*capability.Capability
	// descriptions are free text: equal and empty ones must not make capabilities share an answer
	descs := []string{"", "cap", "cap", "feature x"}
	desc := func(i int) string {
		if rng.Intn(2) == 0 {
			return descs[rng.Intn(len(descs))]
		}
		return fmt.Sprintf("c%d", i)
	}
	for i, rs := range caps {
		var c *capability.Capability
		// NewCapability pairs its arguments; usable when no range has an empty lower bound
		// followed by anything (an empty Introduced is indistinguishable from "no range")
		// (NewCapability takes the bounds in pairs, an empty lower bound included; a last argument without a
		// partner is a range without upper bound - only an empty one there cannot be told from "nothing")
		usable := viaNew
		for j, r := range rs {
			if r[0] == 0 && r[1] == 0 {
				usable = false
			}
			_ = j
		}
		if usable {
			var args []string
			for j, r := range rs {
				args = append(args, str(r[0]))
				if !(j == len(rs)-1 && r[1] == 0) {
					args = append(args, str(r[1]))
				}
			}
			c = capability.NewCapability(desc(i), args...)
		} else {
			c = &capability.Capability{Description: desc(i)}
			for _, r := range rs {
				c.VersionRanges = append(c.VersionRanges, capability.VersionRange{Introduced: str(r[0]), Removed: str(r[1])})
			}
		}
		cs = append(cs, c)
	}
	t.Capabilities = cs
	vs := str(v)
	if v < 0 && capForceBad == "" && rng.Intn(3) == 0 {
		vs = "" // no version at all is an unparsable version too (an empty *bound* means "unbounded", an empty version nothing)
	}
	ver, err := t.Version(vs)
	has := []bool{}
	foreign := false
	if err == nil {
		for _, c := range cs {
			has = append(has, ver.Has(c))
		}
		foreign = ver.Has(&capability.Capability{Description: "never registered"})
	}
	ic := make([][][]int, len(caps))
	for i, rs := range caps {
		ic[i] = [][]int{}
		for _, r := range rs {
			ic[i] = append(ic[i], []int{r[0], r[1]})
		}
	}
	tr.Emit(Ev{"ev": "Eval", "caps": ic, "v": v, "err": err != nil, "has": has, "foreign": foreign, "custom": custom})
	if err != nil || v < 0 || len(cs) == 0 || rng.Intn(3) != 0 {
		return
	}
	// the ranges of the capabilities change (no range any more, another range, the same one) and the same
	// version object is evaluated again: what it reports is what holds now
	caps2 := make([][][]int, len(cs))
	for i, c := range cs {
		caps2[i] = [][]int{}
		c.VersionRanges = nil
		switch rng.Intn(3) {
		case 0:
		case 1:
			for _, r := range caps[i] {
				c.VersionRanges = append(c.VersionRanges, capability.VersionRange{Introduced: str(r[0]), Removed: str(r[1])})
				caps2[i] = append(caps2[i], []int{r[0], r[1]})
			}
		default:
			lo := 1 + rng.Intn(len(capGrid)-1)
			hi := lo + 1 + rng.Intn(len(capGrid)-lo)
			c.VersionRanges = []capability.VersionRange{{Introduced: str(lo), Removed: str(hi)}}
			caps2[i] = [][]int{{lo, hi}}
		}
	}
	err2 := t.SetCapabilities(ver)
	has2 := []bool{}
	if err2 == nil {
		for _, c := range cs {
			has2 = append(has2, ver.Has(c))
		}
	}
	tr.Emit(Ev{"ev": "Eval", "caps": caps2, "v": v, "err": err2 != nil, "has": has2, "foreign": false, "custom": custom, "again": true})
}

func capMain(args []string) error {
	fs := flag.NewFlagSet("cap", flag.ExitOnError)
	out := fs.String("out", "cap.ndjson", "trace file")
	seed := fs.Int64("seed", 1, "seed")
	g := fs.Int("g", 3, "exhaustive part: grid size")
	count := fs.Int("count", 500, "random cases over the 12-point grid")
	fs.Parse(args)
	tr, err := NewTracer(*out)
	if err != nil {
		return err
	}
	rng := rand.New(rand.NewSource(*seed))
	tr.Reset(map[string]interface{}{"driver": "cap-grid"})
	for a := 1; a <= len(capGrid); a++ {
		for b := 1; b <= len(capGrid); b++ {
			s, err := capability.VersionCompareSemantic(capStr(rng, a), capStr(rng, b))
			if err != nil {
				return fmt.Errorf("grid entry unparsable: %v", err)
			}
			tr.Emit(Ev{"ev": "Grid", "a": a, "b": b, "sign": s})
		}
	}
	// exhaustive: one capability with 0..2 ranges over bounds {-1,0,1..g}, every version; both comparers
	bounds := []int{-1, 0}
	for p := 1; p <= *g; p++ {
		bounds = append(bounds, p)
	}
	var ranges [][2]int
	for _, lo := range bounds {
		for _, hi := range bounds {
			ranges = append(ranges, [2]int{lo, hi})
		}
	}
	vers := append([]int{-1}, bounds[2:]...)
	n := 0
	newScn := func() {
		if n%400 == 0 {
			tr.Reset(map[string]interface{}{"driver": "cap", "n": n})
		}
		n++
	}
	for _, v := range vers {
		for _, custom := range []bool{false, true} {
			newScn()
			capEval(tr, rng, [][][2]int{{}}, v, custom, false)
			for _, r1 := range ranges {
				newScn()
				capEval(tr, rng, [][][2]int{{r1}}, v, custom, rng.Intn(2) == 0)
				for _, r2 := range ranges {
					newScn()
					capEval(tr, rng, [][][2]int{{r1, r2}}, v, custom, rng.Intn(2) == 0)
				}
			}
		}
	}
	// random: 1..3 capabilities with 0..4 ranges over the 12-point grid, all permutations of ranges for small lists
	for i := 0; i < *count; i++ {
		newScn()
		nc := 1 + rng.Intn(3)
		caps := make([][][2]int, nc)
		for c := range caps {
			nr := rng.Intn(5)
			for k := 0; k < nr; k++ {
				b := func() int {
					switch rng.Intn(10) {
					case 0:
						return -1
					case 1, 2:
						return 0
					}
					return 1 + rng.Intn(len(capGrid))
				}
				lo, hi := b(), b()
				if lo > 0 && hi > 0 && lo > hi && rng.Intn(4) > 0 {
					lo, hi = hi, lo
				}
				caps[c] = append(caps[c], [2]int{lo, hi})
			}
		}
		v := 1 + rng.Intn(len(capGrid))
		if rng.Intn(15) == 0 {
			v = -1
		}
		custom := rng.Intn(2) == 0
		capEval(tr, rng, caps, v, custom, rng.Intn(2) == 0)
		// permutations: reversed ranges, reversed capabilities
		rev := make([][][2]int, nc)
		for c := range caps {
			rc := append([][2]int{}, caps[c]...)
			for a, b := 0, len(rc)-1; a < b; a, b = a+1, b-1 {
				rc[a], rc[b] = rc[b], rc[a]
			}
			rev[nc-1-c] = rc
		}
		capEval(tr, rng, rev, v, custom, false)
	}
	return tr.Close()
}
