package main

import (
	"context"
	"time"
	"encoding/binary"
	"errors"
	"flag"
	"fmt"
	"math/rand"
	"reflect"
	"runtime"
	"sort"
	"strings"

	"github.com/SAP/go-dblib/asetypes"
	"github.com/SAP/go-dblib/tds"
)

func init() { families["wire"] = wireMain }

// ---------------------------------------------------------------------------------------------
// generic kinds: packages whose serialised fields are exported struct fields

type wf struct {
	goName, name, typ string // typ: u8 u16 u31 str bytes
	maxLen            int    // strings: largest length (prefix width)
}

type wkind struct {
	kind   string
	token  byte
	fields []wf
	// fix makes the random field values consistent (optional parts, value domains)
	fix func(rng *rand.Rand, f map[string]interface{})
	// read-only: the library writer emits another token (DONEPROC/DONEINPROC)
	noWrite bool
}

// forceCursorID: -1 = drawn; 0 = the cursor id is 0 (the name identifies the cursor - also the empty name);
// 1 = a cursor id other than 0
var forceCursorID = -1

func curFix(rng *rand.Rand, f map[string]interface{}) {
	if forceCursorID == 0 || (forceCursorID < 0 && rng.Intn(2) == 0) {
		f["cursorid"] = 0
	} else if f["cursorid"].(int) == 0 {
		f["cursorid"] = 1 + rng.Intn(1000)
	}
	if f["cursorid"].(int) != 0 {
		f["name"] = []int{} // the name travels only with id 0
	}
}

var wkinds = []wkind{
	{kind: "EED", token: 0xE5, fields: []wf{{"MsgNumber", "msgno", "u31", 0}, {"State", "state", "u8", 0}, {"Class", "class", "u8", 0},
		{"SQLState", "sqlstate", "bytes", 255}, {"Status", "status", "u8", 0}, {"TranState", "transtate", "u16", 0},
		{"Msg", "msg", "str", 64000}, {"ServerName", "server", "str", 255}, {"ProcName", "proc", "str", 255}, {"LineNr", "line", "u16", 0}},
		fix: func(rng *rand.Rand, f map[string]interface{}) {
			m := f["msg"].([]int)
			if len(m) > 0 && m[len(m)-1] == '\n' { // the reader strips one trailing newline by design
				m[len(m)-1] = 'x'
			}
		}},
	{kind: "ERROR", token: 0xAA, fields: []wf{{"ErrorNumber", "errno", "u31", 0}, {"State", "state", "u8", 0}, {"Class", "class", "u8", 0},
		{"ErrorMsg", "msg", "str", 64000}, {"ServerName", "server", "str", 255}, {"ProcName", "proc", "str", 255}, {"LineNr", "line", "u16", 0}}},
	{kind: "DONE", token: 0xFD, fields: []wf{{"Status", "status", "u16", 0}, {"TranState", "transtate", "u16", 0}, {"Count", "count", "u31", 0}}},
	{kind: "DONEPROC", token: 0xFE, noWrite: true, fields: []wf{{"Status", "status", "u16", 0}, {"TranState", "transtate", "u16", 0}, {"Count", "count", "u31", 0}}},
	{kind: "DONEINPROC", token: 0xFF, noWrite: true, fields: []wf{{"Status", "status", "u16", 0}, {"TranState", "transtate", "u16", 0}, {"Count", "count", "u31", 0}}},
	{kind: "MSG", token: 0x65, fields: []wf{{"Status", "status", "u8", 0}, {"MsgId", "msgid", "u16", 0}}},
	{kind: "RETURNSTATUS", token: 0x79, fields: []wf{{"ReturnValue", "value", "u31", 0}}},
	{kind: "LOGOUT", token: 0x71, fields: []wf{{"Options", "options", "u8", 0}},
		fix: func(rng *rand.Rand, f map[string]interface{}) { f["options"] = 0 }},
	{kind: "LANGUAGE", token: 0x21, fields: []wf{{"Status", "status", "u8", 0}, {"Cmd", "cmd", "str", 70000}}},
	{kind: "DYNAMIC", token: 0xE7, fields: []wf{{"Type", "type", "u8", 0}, {"Status", "status", "u8", 0}, {"ID", "id", "str", 255}, {"Stmt", "stmt", "str", 30000}},
		fix: dynFix},
	{kind: "DYNAMIC2", token: 0x62, fields: []wf{{"Type", "type", "u8", 0}, {"Status", "status", "u8", 0}, {"ID", "id", "str", 255}, {"Stmt", "stmt", "str", 70000}},
		fix: dynFix},
	{kind: "CURDECLARE", token: 0x86, fields: []wf{{"Name", "name", "str", 255}, {"Options", "options", "u8", 0}, {"Status", "status", "u8", 0}, {"Stmt", "stmt", "str", 30000}}},
	{kind: "CURDECLARE3", token: 0x10, fields: []wf{{"Name", "name", "str", 255}, {"Options", "options", "u31", 0}, {"Status", "status", "u8", 0}, {"Stmt", "stmt", "str", 70000}}},
	{kind: "CURINFO", token: 0x83, fields: []wf{{"CursorID", "cursorid", "u31", 0}, {"Name", "name", "str", 255}, {"Command", "command", "u8", 0},
		{"Status", "status", "u16", 0}, {"RowCount", "rowcount", "u31", 0}},
		fix: func(rng *rand.Rand, f map[string]interface{}) {
			curFix(rng, f)
			if f["status"].(int)&0x20 == 0 {
				f["rowcount"] = 0
			}
		}},
	{kind: "CURINFO3", token: 0x88, fields: []wf{{"CursorID", "cursorid", "u31", 0}, {"Name", "name", "str", 255}, {"Command", "command", "u8", 0},
		{"Status", "status", "u31", 0}, {"RowNum", "rownum", "u31", 0}, {"TotalRows", "totalrows", "u31", 0}, {"RowCount", "rowcount", "u31", 0}},
		fix: func(rng *rand.Rand, f map[string]interface{}) {
			curFix(rng, f)
			if f["status"].(int)&0x20 == 0 {
				f["rowcount"] = 0
			}
		}},
	{kind: "CUROPEN", token: 0x84, fields: []wf{{"CursorID", "cursorid", "u31", 0}, {"Name", "name", "str", 255}, {"Status", "status", "u8", 0}}, fix: curFix},
	{kind: "CURFETCH", token: 0x82, fields: []wf{{"CursorID", "cursorid", "u31", 0}, {"Name", "name", "str", 255}, {"Type", "type", "u8", 0}, {"RowNumber", "rownum", "u31", 0}},
		fix: func(rng *rand.Rand, f map[string]interface{}) {
			curFix(rng, f)
			f["type"] = 1 + rng.Intn(6)
			if t := f["type"].(int); t != 5 && t != 6 {
				f["rownum"] = 0
			}
		}},
	{kind: "CURUPDATE", token: 0x85, fields: []wf{{"CursorID", "cursorid", "u31", 0}, {"Name", "name", "str", 255}, {"Status", "status", "u8", 0},
		{"TableName", "table", "str", 255}, {"Stmt", "stmt", "str", 30000}}, fix: curFix},
	{kind: "CURDELETE", token: 0x81, fields: []wf{{"CursorID", "cursorid", "u31", 0}, {"Name", "name", "str", 255}, {"Status", "status", "u8", 0},
		{"TableName", "table", "str", 255}}, fix: curFix},
}

// forceDynType >= 0: the dynamic operation type the next DYNAMIC packages get (each type has its own
// optional parts); forceDynEmpty: with an empty statement
var forceDynType = -1
var forceDynEmpty = false

func dynFix(rng *rand.Rand, f map[string]interface{}) {
	f["type"] = []int{0x01, 0x02, 0x04, 0x08, 0x10, 0x20, 0x40}[rng.Intn(7)]
	if forceDynType >= 0 {
		f["type"] = forceDynType
		if forceDynEmpty {
			f["stmt"] = []int{}
		}
	}
	if t := f["type"].(int); t&0x01 == 0 && t&0x08 == 0 {
		f["stmt"] = []int{} // the statement travels only with PREPARE / EXEC_IMMED
	}
}

func randLen(rng *rand.Rand, max int) int {
	b := []int{0, 1, 2, 254, 255, 256, 65534, 65535, 65536}
	switch rng.Intn(4) {
	case 0:
		n := b[rng.Intn(len(b))]
		if n <= max {
			return n
		}
		return max
	case 1:
		if max > 300 {
			return rng.Intn(300)
		}
		return rng.Intn(max + 1)
	default:
		return rng.Intn(20)
	}
}

func randText(rng *rand.Rand, n int) []int {
	t := make([]int, n)
	switch rng.Intn(8) {
	case 0: // any byte: NUL, line ends, high bytes
		for i := range t {
			t[i] = rng.Intn(256)
		}
	case 1: // printable text with NUL / blank / newline at the ends
		for i := range t {
			t[i] = 32 + rng.Intn(95)
		}
		ends := []int{0, 32, 10, 13, 0, 255}
		for k := 0; k < 2 && n > 0; k++ {
			if rng.Intn(2) == 0 {
				t[n-1-k%n] = ends[rng.Intn(len(ends))]
			}
			if rng.Intn(3) == 0 {
				t[k%n] = ends[rng.Intn(len(ends))]
			}
		}
	default:
		for i := range t {
			t[i] = 32 + rng.Intn(95)
		}
	}
	return t
}

func toBytes(v []int) []byte {
	b := make([]byte, len(v))
	for i, x := range v {
		b[i] = byte(x)
	}
	return b
}

func (k wkind) random(rng *rand.Rand, small bool) map[string]interface{} {
	f := map[string]interface{}{}
	for _, fd := range k.fields {
		switch fd.typ {
		case "u8":
			f[fd.name] = rng.Intn(256)
		case "u16":
			f[fd.name] = []int{0, 1, 255, 256, 65535, rng.Intn(65536)}[rng.Intn(6)]
		case "u31":
			f[fd.name] = []int{0, 1, 65536, 1<<31 - 1, rng.Intn(1 << 30)}[rng.Intn(5)]
		case "str", "bytes":
			n := randLen(rng, fd.maxLen)
			if small && n > 12 {
				n = rng.Intn(12)
			}
			f[fd.name] = randText(rng, n)
		}
	}
	if k.fix != nil {
		k.fix(rng, f)
	}
	return f
}

func setFields(obj interface{}, k wkind, f map[string]interface{}) {
	v := reflect.ValueOf(obj).Elem()
	for _, fd := range k.fields {
		fv := v.FieldByName(fd.goName)
		switch fd.typ {
		case "u8", "u16", "u31":
			n := f[fd.name].(int)
			switch fv.Kind() {
			case reflect.Int, reflect.Int8, reflect.Int16, reflect.Int32, reflect.Int64:
				fv.SetInt(int64(n))
			default:
				fv.SetUint(uint64(n))
			}
		case "str":
			fv.SetString(string(toBytes(f[fd.name].([]int))))
		case "bytes":
			fv.SetBytes(toBytes(f[fd.name].([]int)))
		}
	}
}

func getFields(obj interface{}, k wkind) map[string]interface{} {
	v := reflect.ValueOf(obj).Elem()
	f := map[string]interface{}{}
	for _, fd := range k.fields {
		fv := v.FieldByName(fd.goName)
		switch fd.typ {
		case "u8", "u16", "u31":
			switch fv.Kind() {
			case reflect.Int, reflect.Int8, reflect.Int16, reflect.Int32, reflect.Int64:
				f[fd.name] = int(fv.Int())
			default:
				f[fd.name] = int(fv.Uint())
			}
		case "str":
			f[fd.name] = ints([]byte(fv.String()))
		case "bytes":
			f[fd.name] = ints(fv.Bytes())
		}
	}
	return f
}

const bigPS = 1 << 20

// writeBytes lets the library write a package into a fresh queue and returns the bytes.
func writeBytes(pkg tds.Package) (bs []byte, st string) {
	defer func() {
		if r := recover(); r != nil {
			bs, st = nil, "panic"
		}
	}()
	ps := 600
	q := tds.NewPacketQueue(func() int { return ps })
	if err := pkg.WriteTo(q); err != nil {
		return nil, "err"
	}
	ip, id := q.Position()
	total := ip*(ps-8) + id
	q.SetPosition(0, 0)
	b, err := q.Bytes(total)
	if err != nil {
		return nil, "err"
	}
	return b, "ok"
}

// readPkg lets the library read a package from the bytes behind the token, delivered as one
// packet of exactly that size.
func readPkg(pkg tds.Package, body []byte) (st string, consumed int) {
	return readPkgE(pkg, body, false)
}

// readPkgE: eom = the packet carries the end-of-message status (the queue knows that nothing follows)
func readPkgE(pkg tds.Package, body []byte, eom bool) (st string, consumed int) {
	defer func() {
		if r := recover(); r != nil {
			st = "panic"
		}
	}()
	q := tds.NewPacketQueue(func() int { return bigPS })
	if len(body) > 0 {
		p := &tds.Packet{Data: append([]byte(nil), body...)}
		p.Header.Length = uint16(8)
		if eom {
			p.Header.Status = tds.TDS_BUFSTAT_EOM
		}
		q.AddPacket(p)
	}
	err := pkg.ReadFrom(q)
	ip, id := q.Position()
	consumed = id
	if ip > 0 {
		consumed = len(body)
	}
	switch {
	case err == nil:
		return "ok", consumed
	case errors.Is(err, tds.ErrNotEnoughBytes):
		return "need", consumed
	}
	return "err", consumed
}

type wireRun struct {
	tr  *Tracer
	rng *rand.Rand
	n   int
}

func (r *wireRun) scn() {
	if r.n%20 == 0 {
		r.tr.Reset(map[string]interface{}{"driver": "wire", "n": r.n})
	}
	r.n++
}

// prefixes: C07 - every proper prefix of the bytes behind the token must be "need"
func (r *wireRun) prefixes(kind string, mk func() tds.Package, body []byte, f interface{}) {
	if len(body) > 4000 {
		return
	}
	// C07 speaks about valid encodings: bytes the parser itself does not accept completely (a writer
	// defect, which is C06's matter) are not used
	if st, consumed := readPkg(mk(), body); st != "ok" || consumed != len(body) {
		return
	}
	out := make([]string, 0, len(body))
	counts := map[string]int{}
	firstBad := -1
	for k := 0; k < len(body); k++ {
		st, _ := readPkg(mk(), body[:k])
		if st == "need" && k > 0 {
			// the same prefix as the last packet of a message: still "not enough bytes"
			st, _ = readPkgE(mk(), body[:k], true)
		}
		counts[st]++
		if st != "need" && firstBad < 0 {
			firstBad = k
		}
		out = append(out, st)
	}
	// the complete bytes after truncated attempts on the same queue: rollback + rest added
	q := tds.NewPacketQueue(func() int { return bigPS })
	full := "ok"
	func() {
		defer func() {
			if recover() != nil {
				full = "panic"
			}
		}()
		cut := len(body) / 2
		p1 := &tds.Packet{Data: append([]byte(nil), body[:cut]...)}
		q.AddPacket(p1)
		pk := mk()
		if cut < len(body) {
			if err := pk.ReadFrom(q); err == nil {
				full = "early-ok"
				return
			}
		}
		q.SetPosition(0, 0)
		q.AddPacket(&tds.Packet{Data: append([]byte(nil), body[cut:]...)})
		pk2 := mk()
		if err := pk2.ReadFrom(q); err != nil {
			full = "err"
			return
		}
		ref := mk()
		if st, _ := readPkg(ref, body); st != "ok" || dump(ref) != dump(pk2) {
			full = "differs"
		}
	}()
	r.tr.Emit(Ev{"ev": "Prefix", "kind": kind, "n": len(body), "need": counts["need"], "ok": counts["ok"], "err": counts["err"],
		"panic": counts["panic"], "firstbad": firstBad, "full": full})
}

func (r *wireRun) generic(k wkind, small bool, doPrefix bool) {
	r.genericWith(k, small, doPrefix, "", 0)
}

// boundaryLens: the lengths at which a length prefix of a string field of at most max bytes turns over
func boundaryLens(max int) []int {
	var out []int
	for _, n := range []int{0, 1, 255, 256, 65535, 65536, 65537} {
		if n <= max {
			out = append(out, n)
		}
	}
	return out
}

// edgeTexts: string values whose ends a reader might be tempted to tidy up
var edgeTexts = [][]int{{0}, {'a', 0}, {'a', 'b', 0, 0}, {0, 'a'}, {' '}, {' ', 'a', ' '}, {'a', '\n'}, {'\n'}, {'a', '\r', '\n'}, {255}, {'a', 255}, {'\t'}}

// genericWith: like generic; field `force` (if any) gets exactly forceLen bytes (forceLen < 0: the
// edge text number -forceLen-1)
func (r *wireRun) genericWith(k wkind, small bool, doPrefix bool, force string, forceLen int) {
	r.scn()
	f := k.random(r.rng, small)
	var forced []int
	if forceLen < 0 {
		forced = edgeTexts[-forceLen-1]
		forceLen = len(forced)
	}
	for try := 0; force != "" && try < 40; try++ {
		f[force] = randText(r.rng, forceLen)
		if forced != nil {
			f[force] = append([]int{}, forced...)
		}
		if k.fix != nil {
			k.fix(r.rng, f) // may blank an optional part: draw the other fields again
		}
		if len(f[force].([]int)) == forceLen {
			break
		}
		f = k.random(r.rng, small)
	}
	pkg, _ := tds.LookupPackage(tds.Token(k.token))
	setFields(pkg, k, f)
	wst, wbytes := "none", []byte(nil)
	if !k.noWrite {
		wbytes, wst = writeBytes(pkg)
	} else {
		// the harness's own bytes (the library's writer emits the DONE token for all three)
		wbytes = encDone(int(k.token), f["status"].(int), f["transtate"].(int), int32(f["count"].(int))).Bytes
	}
	ev := Ev{"ev": "Pkg", "kind": k.kind, "f": f, "w": wst, "wbytes": ints(wbytes), "h": k.noWrite, "hbytes": ints(wbytes), "r": "none", "rf": f, "consumed": 0}
	if k.noWrite {
		ev["wbytes"] = []int{}
	}
	if len(wbytes) > 0 {
		back, _ := tds.LookupPackage(tds.Token(k.token))
		st, consumed := readPkg(back, wbytes[1:])
		ev["r"], ev["consumed"] = st, consumed
		if st == "ok" {
			ev["rf"] = getFields(back, k)
		}
		if doPrefix && wbytes[0] == k.token {
			r.prefixes(k.kind, func() tds.Package { p, _ := tds.LookupPackage(tds.Token(k.token)); return p }, wbytes[1:], f)
		}
	}
	r.tr.Emit(ev)
}

// ---------------------------------------------------------------------------------------------
// format packages and data packages (harness-encoded, then read and re-written by the library)

type fcol struct {
	Label, Catalogue, Schema, Table, Name, TableName, Locale []int
	Status, UserType, Dt, MaxLen, Prec, Scale              int
}

func (c fcol) ev(wide, row bool) map[string]interface{} {
	m := map[string]interface{}{"name": c.Name, "status": c.Status, "usertype": c.UserType, "dt": c.Dt, "maxlen": c.MaxLen,
		"prec": c.Prec, "scale": c.Scale, "tablename": c.TableName, "locale": c.Locale,
		"label": c.Label, "catalogue": c.Catalogue, "schema": c.Schema, "table": c.Table}
	return m
}

func randFcol(rng *rand.Rand, wide, row bool) fcol {
	return randFcolDt(rng, wide, row, int(allColTypes[rng.Intn(len(allColTypes))]))
}

func randFcolDt(rng *rand.Rand, wide, row bool, dt int) fcol {
	c := fcol{Dt: dt, Name: randText(rng, rng.Intn(8)), Locale: randText(rng, rng.Intn(3)), UserType: rng.Intn(1 << 20),
		Label: []int{}, Catalogue: []int{}, Schema: []int{}, Table: []int{}, TableName: []int{}}
	if wide {
		// the wide formats carry four bytes of status: also bits above the first byte
		c.Status = []int{0, 0x08, 0x20, 0x28, 0x10, 0x30, 0x100, 0x128, 0x10020, 0x7fffff08, 0x40000000}[rng.Intn(11)]
	} else {
		c.Status = []int{0, 0x08, 0x20, 0x28}[rng.Intn(4)]
	}
	if row && wide {
		c.Label, c.Catalogue, c.Schema, c.Table = randText(rng, rng.Intn(6)), randText(rng, rng.Intn(4)), randText(rng, rng.Intn(4)), randText(rng, rng.Intn(6))
	}
	b := byte(dt)
	switch {
	case fixedSize[b] > 0:
		c.MaxLen = fixedSize[b]
	case isIn(len1Types, b):
		c.MaxLen = []int{1, 4, 8, 30, 255}[rng.Intn(5)]
	case isIn(len1PrecScale, b):
		c.MaxLen, c.Prec = 1+rng.Intn(33), 1+rng.Intn(38)
		c.Scale = rng.Intn(c.Prec + 1)
	case isIn(len1Scale, b):
		c.MaxLen, c.Scale = 8, rng.Intn(7)
	case isIn(len4Types, b):
		c.MaxLen = []int{1, 255, 16384, 1<<31 - 1}[rng.Intn(4)]
	case isIn(txtTypes, b):
		c.MaxLen = []int{1, 32768, 1<<31 - 1}[rng.Intn(3)]
		c.TableName = randText(rng, rng.Intn(10))
	}
	return c
}

func encFcols(tok int, cols []fcol, wide, row bool) []byte {
	body := &wbuf{}
	body.u16(len(cols))
	for _, c := range cols {
		if row && wide {
			body.s8(string(toBytes(c.Label)))
			body.s8(string(toBytes(c.Catalogue)))
			body.s8(string(toBytes(c.Schema)))
			body.s8(string(toBytes(c.Table)))
		}
		body.s8(string(toBytes(c.Name)))
		if wide {
			body.u32(uint32(c.Status))
		} else {
			body.u8(c.Status)
		}
		body.u32(uint32(c.UserType))
		body.u8(c.Dt)
		b := byte(c.Dt)
		switch {
		case fixedSize[b] > 0:
		case isIn(len1Types, b):
			body.u8(c.MaxLen)
		case isIn(len1PrecScale, b):
			body.u8(c.MaxLen)
			body.u8(c.Prec)
			body.u8(c.Scale)
		case isIn(len1Scale, b):
			body.u8(c.MaxLen)
			body.u8(c.Scale)
		case isIn(len4Types, b):
			body.u32(uint32(c.MaxLen))
		case isIn(txtTypes, b):
			body.u32(uint32(c.MaxLen))
			body.s16(string(toBytes(c.TableName)))
		}
		body.s8(string(toBytes(c.Locale)))
	}
	w := &wbuf{}
	w.u8(tok)
	if tok == tokParamFmt || tok == tokRowFmt { // narrow: 2-byte length (TDS 5.0)
		w.u16(len(body.b))
	} else {
		w.u32(uint32(len(body.b)))
	}
	w.raw(body.b)
	return w.b
}

func colsOf(fmts []tds.FieldFmt, wide, row bool) []map[string]interface{} {
	out := []map[string]interface{}{}
	for _, ff := range fmts {
		c := fcol{Dt: int(ff.DataType()), Name: ints([]byte(ff.Name())), Status: int(ff.Status()), UserType: int(ff.UserType()),
			Locale: ints([]byte(ff.LocaleInfo())), MaxLen: int(ff.MaxLength()),
			Label: ints([]byte(ff.ColumnLabel())), Catalogue: ints([]byte(ff.Catalogue())), Schema: ints([]byte(ff.Schema())), Table: ints([]byte(ff.Table())),
			TableName: []int{}}
		if p, ok := ff.(interface{ Precision() uint8 }); ok {
			c.Prec = int(p.Precision())
		}
		if s, ok := ff.(interface{ Scale() uint8 }); ok {
			c.Scale = int(s.Scale())
		}
		// the table name of the text pointer family is not exported: read it reflectively
		if tn := reflect.ValueOf(ff).Elem().FieldByName("tableName"); tn.IsValid() {
			c.TableName = ints([]byte(tn.String()))
		}
		out = append(out, c.ev(wide, row))
	}
	return out
}

func (r *wireRun) format(doPrefix bool) { r.formatWith(doPrefix, -1) }

// formatWith: lastDt >= 0 makes that data type the last column (what follows a cut-off last field is
// the end of the package, not another field that would notice)
func (r *wireRun) formatWith(doPrefix bool, lastDt int) {
	r.scn()
	kinds := []struct {
		kind      string
		tok       int
		wide, row bool
	}{{"PARAMFMT", tokParamFmt, false, false}, {"PARAMFMT2", tokParamFmt2, true, false}, {"ROWFMT", tokRowFmt, false, true}, {"ROWFMT2", tokRowFmt2, true, true}}
	k := kinds[r.rng.Intn(4)]
	n := r.rng.Intn(5)
	if lastDt >= 0 {
		n = 1 + r.rng.Intn(3)
	}
	var cols []fcol
	var evcols []map[string]interface{}
	for i := 0; i < n; i++ {
		c := randFcol(r.rng, k.wide, k.row)
		if lastDt >= 0 && i == n-1 {
			c = randFcolDt(r.rng, k.wide, k.row, lastDt)
		}
		if !(k.row && k.wide) {
			c.Label, c.Catalogue, c.Schema, c.Table = []int{}, []int{}, []int{}, []int{}
		}
		cols = append(cols, c)
		evcols = append(evcols, c.ev(k.wide, k.row))
	}
	if evcols == nil {
		evcols = []map[string]interface{}{}
	}
	hb := encFcols(k.tok, cols, k.wide, k.row)
	f := map[string]interface{}{"cols": evcols}
	pkg, _ := tds.LookupPackage(tds.Token(k.tok))
	st, consumed := readPkg(pkg, hb[1:])
	ev := Ev{"ev": "Pkg", "kind": k.kind, "f": f, "w": "none", "wbytes": []int{}, "h": true, "hbytes": ints(hb), "r": st, "rf": f, "consumed": consumed}
	if st == "ok" {
		var fmts []tds.FieldFmt
		switch p := pkg.(type) {
		case *tds.ParamFmtPackage:
			fmts = p.Fmts
		case *tds.RowFmtPackage:
			fmts = p.Fmts
		}
		ev["rf"] = map[string]interface{}{"cols": colsOf(fmts, k.wide, k.row)}
		// the library writes what it read (only parameter formats have a writer)
		if !k.row {
			wb, wst := writeBytes(pkg)
			ev["w"], ev["wbytes"] = wst, ints(wb)
		}
	}
	r.tr.Emit(ev)
	if doPrefix {
		r.prefixes(k.kind, func() tds.Package { p, _ := tds.LookupPackage(tds.Token(k.tok)); return p }, hb[1:], f)
	}
	// data packages for this format: framing only (status byte, length prefix, NULL <=> zero length)
	if st == "ok" && n > 0 {
		wcols := make([]wCol, n)
		for i, c := range cols {
			wcols[i] = wCol{dt: byte(c.Dt), status: uint32(c.Status)}
		}
		dtok := tokParams
		dkind := "PARAMS"
		if k.row {
			dtok, dkind = tokRow, "ROW"
		}
		data := encData(r.rng, dtok, wcols, 30)
		mk := func() tds.Package {
			p, _ := tds.LookupPackage(tds.Token(dtok))
			p.(tds.LastPkgAcceptor).LastPkg(pkg)
			return p
		}
		dp := mk()
		dst, dcons := readPkg(dp, data.Bytes[1:])
		nulls, statuses := []bool{}, []int{}
		if dst == "ok" {
			var dfs []tds.FieldData
			switch p := dp.(type) {
			case *tds.ParamsPackage:
				dfs = p.DataFields
			case *tds.RowPackage:
				dfs = p.DataFields
			}
			for _, d := range dfs {
				v := d.Value()
				isNil := v == nil
				if dec, ok := v.(*asetypes.Decimal); ok && dec != nil {
					func() {
						defer func() {
							if recover() != nil {
								isNil = true
							}
						}()
						isNil = dec.String() == "<nil>"
					}()
				}
				if b, ok := v.([]byte); ok && len(b) == 0 {
					isNil = true
				}
				nulls = append(nulls, isNil)
				statuses = append(statuses, int(d.Status()))
			}
		}
		// what the harness wrote: per field the status byte (or -1) and whether the data length was 0
		wantNull, wantStatus := dataShape(data.Bytes[1:], wcols)
		r.tr.Emit(Ev{"ev": "Data", "kind": dkind, "n": len(data.Bytes) - 1, "r": dst, "consumed": dcons, "nulls": nulls, "statuses": statuses,
			"wantnull": wantNull, "wantstatus": wantStatus, "dts": dtsOf(wcols)})
		if doPrefix {
			r.prefixes(dkind, mk, data.Bytes[1:], nil)
		}
	}
}

func dtsOf(cols []wCol) []int {
	o := []int{}
	for _, c := range cols {
		o = append(o, int(c.dt))
	}
	return o
}

// dataShape decodes the harness's own data package: per field NULL-ness (zero length) and status.
func dataShape(b []byte, cols []wCol) (nulls []bool, statuses []int) {
	nulls, statuses = []bool{}, []int{}
	for _, c := range cols {
		st := 0
		if c.status&0x08 != 0 {
			st = int(b[0])
			b = b[1:]
		}
		statuses = append(statuses, st)
		switch {
		case fixedSize[c.dt] > 0:
			b = b[fixedSize[c.dt]:]
			nulls = append(nulls, false)
		case isIn(len4Types, c.dt):
			n := int(binary.LittleEndian.Uint32(b))
			b = b[4+n:]
			nulls = append(nulls, n == 0)
		case isIn(txtTypes, c.dt):
			pl := int(b[0])
			b = b[1+pl+8:]
			n := int(binary.LittleEndian.Uint32(b))
			b = b[4+n:]
			nulls = append(nulls, n == 0)
		default:
			n := int(b[0])
			b = b[1+n:]
			nulls = append(nulls, n == 0)
		}
	}
	return
}

// ---------------------------------------------------------------------------------------------
// packages with unexported state

func (r *wireRun) envchange(doPrefix bool) {
	r.envchangeWith(doPrefix, r.rng.Intn(4), -1)
}

// envchangeWith: n members; pattern >= 0 says bit by bit which new / old values are empty
// (bit 2i: new value of member i, bit 2i+1: old value)
func (r *wireRun) envchangeWith(doPrefix bool, n int, pattern int) {
	r.scn()
	var ms [][3]string
	members := []map[string]interface{}{}
	for i := 0; i < n; i++ {
		t := 1 + r.rng.Intn(4)
		nv, ov := randText(r.rng, randLen(r.rng, 255)), randText(r.rng, randLen(r.rng, 255))
		if r.rng.Intn(2) == 0 { // the reader skips the value of a zero-length string
			nv = randText(r.rng, 1+r.rng.Intn(8))
			ov = randText(r.rng, 1+r.rng.Intn(8))
		}
		if t == 4 {
			nv = ints([]byte(itoa(512 + r.rng.Intn(8000))))
		}
		if pattern >= 0 {
			nv, ov = randText(r.rng, 1+r.rng.Intn(6)), randText(r.rng, 1+r.rng.Intn(6))
			if pattern>>(2*i)&1 == 1 {
				nv = []int{}
			}
			if pattern>>(2*i+1)&1 == 1 {
				ov = []int{}
			}
		}
		ms = append(ms, [3]string{string([]byte{byte(t)}), string(toBytes(nv)), string(toBytes(ov))})
		members = append(members, map[string]interface{}{"typ": t, "new": nv, "old": ov})
	}
	hb := encEnvChange(ms...)
	f := map[string]interface{}{"members": members}
	pkg, _ := tds.LookupPackage(tds.TDS_ENVCHANGE)
	st, consumed := readPkg(pkg, hb[1:])
	ev := Ev{"ev": "Pkg", "kind": "ENVCHANGE", "f": f, "w": "none", "wbytes": []int{}, "h": true, "hbytes": ints(hb), "r": st, "rf": f, "consumed": consumed}
	if st == "ok" {
		rm := []map[string]interface{}{}
		mv := reflect.ValueOf(pkg).Elem().FieldByName("members")
		for i := 0; i < mv.Len(); i++ {
			m := mv.Index(i)
			rm = append(rm, map[string]interface{}{"typ": int(m.FieldByName("Type").Uint()), "new": ints([]byte(m.FieldByName("NewValue").String())),
				"old": ints([]byte(m.FieldByName("OldValue").String()))})
		}
		ev["rf"] = map[string]interface{}{"members": rm}
		wb, wst := writeBytes(pkg)
		ev["w"], ev["wbytes"] = wst, ints(wb)
	}
	r.tr.Emit(ev)
	if doPrefix {
		r.prefixes("ENVCHANGE", func() tds.Package { p, _ := tds.LookupPackage(tds.TDS_ENVCHANGE); return p }, hb[1:], f)
	}
}

func (r *wireRun) loginack(doPrefix bool) {
	r.loginackWith(doPrefix, nil)
}

func (r *wireRun) loginackWith(doPrefix bool, forced []int) {
	r.scn()
	st := 5 + r.rng.Intn(3)
	ver := [4]byte{5, 0, 0, 0}
	pver := [4]byte{byte(r.rng.Intn(256)), byte(r.rng.Intn(256)), byte(r.rng.Intn(256)), byte(r.rng.Intn(256))}
	name := randText(r.rng, randLen(r.rng, 255))
	if forced != nil {
		name = append([]int{}, forced...)
	}
	hb := encLoginAck(st, ver, string(toBytes(name)), pver).Bytes
	f := map[string]interface{}{"status": st, "tdsversion": ints(ver[:]), "progname": name, "progversion": ints(pver[:])}
	pkg, _ := tds.LookupPackage(tds.TDS_LOGINACK)
	rst, consumed := readPkg(pkg, hb[1:])
	ev := Ev{"ev": "Pkg", "kind": "LOGINACK", "f": f, "w": "none", "wbytes": []int{}, "h": true, "hbytes": ints(hb), "r": rst, "rf": f, "consumed": consumed}
	if rst == "ok" {
		la := pkg.(*tds.LoginAckPackage)
		ev["rf"] = map[string]interface{}{"status": int(la.Status), "tdsversion": ints(la.Version.Bytes()), "progname": ints([]byte(la.ProgramName)),
			"progversion": ints(la.ProgramVersion.Bytes())}
		wb, wst := writeBytes(pkg)
		ev["w"], ev["wbytes"] = wst, ints(wb)
	}
	r.tr.Emit(ev)
	if doPrefix {
		r.prefixes("LOGINACK", func() tds.Package { p, _ := tds.LookupPackage(tds.TDS_LOGINACK); return p }, hb[1:], f)
	}
}

func (r *wireRun) capability(single int) {
	r.scn()
	// capability subsets: a single bit (exhaustive over single) or random subsets
	sets := map[int][]int{1: {}, 2: {}, 3: {}}
	maxes := map[int]int{1: 106, 2: 73, 3: 0}
	if single >= 0 {
		t := 1 + single/200
		sets[t] = []int{single % 200}
	} else {
		for t := 1; t <= 2; t++ {
			for c := 0; c <= maxes[t]; c++ {
				if r.rng.Intn(3) == 0 {
					sets[t] = append(sets[t], c)
				}
			}
		}
	}
	var req []tds.RequestCapability
	var res []tds.ResponseCapability
	for _, c := range sets[1] {
		req = append(req, tds.RequestCapability(c))
	}
	for _, c := range sets[2] {
		res = append(res, tds.ResponseCapability(c))
	}
	pkg, err := tds.NewCapabilityPackage(req, res, nil)
	if err != nil {
		r.tr.Emit(Ev{"ev": "CapErr", "text": err.Error()})
		return
	}
	wb, wst := writeBytes(pkg)
	// normalise the order of the type chunks (the library iterates a Go map) and derive the mask lengths
	masks := []map[string]interface{}{}
	var norm []byte
	lenOK := false
	if wst == "ok" && len(wb) >= 3 {
		total := int(binary.LittleEndian.Uint16(wb[1:3]))
		lenOK = total == len(wb)-3
		type chunk struct {
			typ int
			b   []byte
		}
		var chunks []chunk
		b := wb[3:]
		for len(b) >= 2 {
			l := int(b[1])
			if 2+l > len(b) {
				break
			}
			chunks = append(chunks, chunk{int(b[0]), b[:2+l]})
			b = b[2+l:]
		}
		sort.Slice(chunks, func(i, j int) bool { return chunks[i].typ < chunks[j].typ })
		norm = append(norm, wb[:3]...)
		for _, c := range chunks {
			norm = append(norm, c.b...)
			caps := sets[c.typ]
			if caps == nil {
				caps = []int{}
			}
			sort.Ints(caps)
			masks = append(masks, map[string]interface{}{"typ": c.typ, "len": len(c.b) - 2, "caps": caps})
		}
	}
	// what was put in, independent of what the writer chose to put on the wire: a type with a capability set
	// must come back with exactly that set (seeded change C06-r: a type whose only capability is its
	// highest-numbered one was left off the wire, and the expectation used to be derived from the written chunks)
	want := []map[string]interface{}{}
	for t := 1; t <= 2; t++ {
		if len(sets[t]) > 0 {
			caps := append([]int{}, sets[t]...)
			sort.Ints(caps)
			want = append(want, map[string]interface{}{"typ": t, "caps": caps})
		}
	}
	f := map[string]interface{}{"masks": masks, "sets": want}
	ev := Ev{"ev": "Pkg", "kind": "CAPABILITY", "f": f, "w": wst, "wbytes": ints(norm), "h": false, "hbytes": []int{}, "r": "none", "rf": f, "consumed": 0, "lenok": lenOK}
	if wst == "ok" {
		back, _ := tds.LookupPackage(tds.TDS_CAPABILITY)
		st, consumed := readPkg(back, wb[1:])
		ev["r"], ev["consumed"] = st, consumed
		if st == "ok" {
			cp := back.(*tds.CapabilityPackage)
			rm := []map[string]interface{}{}
			for _, m := range masks {
				t := m["typ"].(int)
				caps := []int{}
				for c := 0; c < 8*m["len"].(int); c++ {
					has := false
					func() {
						defer func() { recover() }()
						has = cp.HasCapability(tds.CapabilityType(t), c)
					}()
					if has {
						caps = append(caps, c)
					}
				}
				rm = append(rm, map[string]interface{}{"typ": t, "len": m["len"], "caps": caps})
			}
			got := []map[string]interface{}{}
			for t := 1; t <= 2; t++ {
				caps := []int{}
				for c := 0; c <= maxes[t]; c++ {
					has := false
					func() {
						defer func() { recover() }()
						has = cp.HasCapability(tds.CapabilityType(t), c)
					}()
					if has {
						caps = append(caps, c)
					}
				}
				if len(caps) > 0 {
					got = append(got, map[string]interface{}{"typ": t, "caps": caps})
				}
			}
			ev["rf"] = map[string]interface{}{"masks": rm, "sets": got}
		}
	}
	r.tr.Emit(ev)
}

func (r *wireRun) orderby(doPrefix bool) {
	r.scn()
	wide := r.rng.Intn(2) == 0
	n := r.rng.Intn(6)
	cols := []int{}
	for i := 0; i < n; i++ {
		if wide {
			cols = append(cols, r.rng.Intn(65536))
		} else {
			cols = append(cols, r.rng.Intn(256))
		}
	}
	var hb []byte
	kind := "ORDERBY"
	tok := tds.TDS_ORDERBY
	if wide {
		hb, kind, tok = encOrderBy2(cols).Bytes, "ORDERBY2", tds.TDS_ORDERBY2
	} else {
		hb = encOrderBy(cols).Bytes
	}
	rowfmt, _ := tds.LookupPackage(tds.TDS_ROWFMT2)
	readPkg(rowfmt, encFcols(tokRowFmt2, nil, true, true)[1:])
	mk := func() tds.Package {
		p, _ := tds.LookupPackage(tok)
		p.(tds.LastPkgAcceptor).LastPkg(rowfmt)
		return p
	}
	pkg := mk()
	f := map[string]interface{}{"cols": cols}
	st, consumed := readPkg(pkg, hb[1:])
	ev := Ev{"ev": "Pkg", "kind": kind, "f": f, "w": "none", "wbytes": []int{}, "h": true, "hbytes": ints(hb), "r": st, "rf": f, "consumed": consumed}
	if st == "ok" {
		var co []int
		switch p := pkg.(type) {
		case *tds.OrderByPackage:
			co = p.ColumnOrder
		case *tds.OrderBy2Package:
			co = p.ColumnOrder
		}
		if co == nil {
			co = []int{}
		}
		ev["rf"] = map[string]interface{}{"cols": co}
	}
	r.tr.Emit(ev)
	if doPrefix {
		r.prefixes(kind, mk, hb[1:], f)
	}
}


// clientParams: the packages only a client sends for parameters - PARAMFMT(2) and PARAMS built
// through the exported constructors and written by the library; the expected data bytes come from
// the harness's own encoding of the Go values.
func (r *wireRun) clientParams() {
	r.scn()
	wide := r.rng.Intn(2) == 0
	type pv struct {
		dt   asetypes.DataType
		val  interface{}
		data []byte
	}
	le16 := func(v uint16) []byte { return binary.LittleEndian.AppendUint16(nil, v) }
	le32 := func(v uint32) []byte { return binary.LittleEndian.AppendUint32(nil, v) }
	le64 := func(v uint64) []byte { return binary.LittleEndian.AppendUint64(nil, v) }
	mk := func() pv {
		switch r.rng.Intn(10) {
		case 0:
			v := uint8(r.rng.Intn(256))
			return pv{asetypes.INT1, v, []byte{v}}
		case 1:
			v := int16(r.rng.Intn(65536) - 32768)
			return pv{asetypes.INT2, v, le16(uint16(v))}
		case 2:
			v := int32(r.rng.Uint32())
			return pv{asetypes.INT4, v, le32(uint32(v))}
		case 3:
			v := int64(r.rng.Uint64())
			return pv{asetypes.INT8, v, le64(uint64(v))}
		case 4:
			v := r.rng.Uint32()
			return pv{asetypes.UINT4, v, le32(v)}
		case 5:
			v := string(toBytes(randText(r.rng, randLen(r.rng, 255))))
			return pv{asetypes.VARCHAR, v, []byte(v)}
		case 6:
			v := randBytes(r.rng, randLen(r.rng, 255))
			return pv{asetypes.VARBINARY, v, v}
		case 7:
			v := randBytes(r.rng, randLen(r.rng, 3000))
			return pv{asetypes.LONGBINARY, v, v}
		case 8:
			v := string(toBytes(randText(r.rng, randLen(r.rng, 3000))))
			return pv{asetypes.LONGCHAR, v, []byte(v)}
		default:
			v := r.rng.Uint64()
			return pv{asetypes.UINT8, v, le64(v)}
		}
	}
	n := 1 + r.rng.Intn(4)
	var fmts []tds.FieldFmt
	var datas []tds.FieldData
	cols := []map[string]interface{}{}
	fields := []map[string]interface{}{}
	for i := 0; i < n; i++ {
		p := mk()
		ff, fd, err := tds.LookupFieldFmtData(p.dt)
		if err != nil {
			continue
		}
		name := randText(r.rng, r.rng.Intn(12))
		ff.SetName(string(toBytes(name)))
		status := []int{0, 0x20}[r.rng.Intn(2)]
		ff.SetStatus(uint(status))
		ut := r.rng.Intn(100)
		ff.SetUserType(int32(ut))
		loc := randText(r.rng, r.rng.Intn(3))
		ff.SetLocaleInfo(string(toBytes(loc)))
		fd.SetValue(p.val)
		fmts = append(fmts, ff)
		datas = append(datas, fd)
		c := fcol{Dt: int(p.dt), Name: name, Status: status, UserType: ut, Locale: loc, MaxLen: int(ff.MaxLength()),
			Label: []int{}, Catalogue: []int{}, Schema: []int{}, Table: []int{}, TableName: []int{}}
		cols = append(cols, c.ev(wide, false))
		fields = append(fields, map[string]interface{}{"dt": int(p.dt), "colstatus": false, "status": 0, "data": ints(p.data), "txtptr": []int{}, "ts": []int{}})
	}
	fpkg := tds.NewParamFmtPackage(wide, fmts...)
	kind := "PARAMFMT"
	if wide {
		kind = "PARAMFMT2"
	}
	wb, wst := writeBytes(fpkg)
	f := map[string]interface{}{"cols": cols}
	ev := Ev{"ev": "Pkg", "kind": kind, "f": f, "w": wst, "wbytes": ints(wb), "h": false, "hbytes": []int{}, "r": "none", "rf": f, "consumed": 0}
	var back tds.Package
	if wst == "ok" && len(wb) > 1 {
		back, _ = tds.LookupPackage(tds.Token(wb[0]))
		st, consumed := readPkg(back, wb[1:])
		ev["r"], ev["consumed"] = st, consumed
		if st == "ok" {
			ev["rf"] = map[string]interface{}{"cols": colsOf(back.(*tds.ParamFmtPackage).Fmts, wide, false)}
		}
	}
	r.tr.Emit(ev)
	// PARAMS: written behind its format (the channel passes the previous package to LastPkg)
	ppkg := tds.NewParamsPackage(datas...)
	if err := ppkg.LastPkg(fpkg); err != nil {
		return
	}
	pb, pst := writeBytes(ppkg)
	pf := map[string]interface{}{"fields": fields}
	pev := Ev{"ev": "Pkg", "kind": "PARAMS", "f": pf, "w": pst, "wbytes": ints(pb), "h": false, "hbytes": []int{}, "r": "none", "rf": pf, "consumed": 0}
	if pst == "ok" && len(pb) > 1 && back != nil {
		rp, _ := tds.LookupPackage(tds.TDS_PARAMS)
		if err := rp.(tds.LastPkgAcceptor).LastPkg(back); err == nil {
			st, consumed := readPkg(rp, pb[1:])
			pev["r"], pev["consumed"] = st, consumed
		}
	}
	r.tr.Emit(pev)
}

// serverFmtParams: parameter values written behind a format the *server* announced (the answer to a
// prepare): the library parses the PARAMFMT, the client fills data fields for its columns - also
// with values longer than the announced maximum length - and writes the PARAMS package.  Whatever
// is written, every length prefix must equal what follows it.
func (r *wireRun) serverFmtParams() {
	r.scn()
	n := 1 + r.rng.Intn(3)
	var cols []fcol
	for i := 0; i < n; i++ {
		dt := []int{0x2F, 0x27, 0x2D, 0x25, 0xE1, 0xAF}[r.rng.Intn(6)] // CHAR VARCHAR BINARY VARBINARY LONGBINARY LONGCHAR
		cols = append(cols, fcol{Dt: dt, Name: randText(r.rng, r.rng.Intn(6)), Locale: []int{}, MaxLen: 1 + r.rng.Intn(12),
			Label: []int{}, Catalogue: []int{}, Schema: []int{}, Table: []int{}, TableName: []int{}})
	}
	hb := encFcols(tokParamFmt, cols, false, false)
	fpkg, _ := tds.LookupPackage(tds.TDS_PARAMFMT)
	if st, _ := readPkg(fpkg, hb[1:]); st != "ok" {
		return
	}
	var datas []tds.FieldData
	fields := []map[string]interface{}{}
	for i, ff := range fpkg.(*tds.ParamFmtPackage).Fmts {
		fd, err := tds.LookupFieldData(ff)
		if err != nil {
			return
		}
		// value lengths around the announced maximum: shorter, equal, longer
		l := cols[i].MaxLen + r.rng.Intn(9) - 3
		if l < 1 {
			l = 1
		}
		v := randBytes(r.rng, l)
		for j := range v {
			v[j] = byte('a' + int(v[j])%26)
		}
		if cols[i].Dt == 0x2F || cols[i].Dt == 0x27 || cols[i].Dt == 0xAF {
			fd.SetValue(string(v))
		} else {
			fd.SetValue(v)
		}
		datas = append(datas, fd)
		fields = append(fields, map[string]interface{}{"dt": cols[i].Dt, "colstatus": false, "status": 0, "data": ints(v), "txtptr": []int{}, "ts": []int{}})
	}
	ppkg := tds.NewParamsPackage(datas...)
	if err := ppkg.LastPkg(fpkg); err != nil {
		return
	}
	pb, pst := writeBytes(ppkg)
	pf := map[string]interface{}{"fields": fields}
	pev := Ev{"ev": "Pkg", "kind": "PARAMS", "f": pf, "w": pst, "wbytes": ints(pb), "h": false, "hbytes": []int{}, "r": "none", "rf": pf, "consumed": 0}
	if pst == "ok" && len(pb) > 1 {
		rp, _ := tds.LookupPackage(tds.TDS_PARAMS)
		if err := rp.(tds.LastPkgAcceptor).LastPkg(fpkg); err == nil {
			st, consumed := readPkg(rp, pb[1:])
			pev["r"], pev["consumed"] = st, consumed
		}
	}
	r.tr.Emit(pev)
}

// loginRecord: the fixed-layout login record for every field length 0..31
func (r *wireRun) loginRecord(enc bool) {
	r.scn()
	info := newInfo()
	lens := func() int { return []int{0, 1, 15, 29, 30, 31, r.rng.Intn(32)}[r.rng.Intn(7)] }
	info.Username = string(toBytes(randText(r.rng, lens())))
	info.Password = string(toBytes(randText(r.rng, lens())))
	info.Host = string(toBytes(randText(r.rng, r.rng.Intn(40))))
	info.ClientHostname = string(toBytes(randText(r.rng, 1+r.rng.Intn(40))))
	cfg, err := tds.NewLoginConfig(info)
	if err != nil {
		return
	}
	cfg.AppName = string(toBytes(randText(r.rng, lens())))
	cfg.Language = string(toBytes(randText(r.rng, lens())))
	cfg.CharSet = string(toBytes(randText(r.rng, lens())))
	cfg.HostProc = string(toBytes(randText(r.rng, lens())))
	if r.rng.Intn(2) == 0 {
		cfg.ServName = string(toBytes(randText(r.rng, lens())))
	}
	if !enc {
		cfg.Encrypt = 0
	}
	pw := info.Password
	sec := 0
	if enc {
		pw, sec = "", 0xA1
	}
	f := map[string]interface{}{"hostname": ints([]byte(cfg.Hostname)), "username": ints([]byte(info.Username)), "password": ints([]byte(pw)),
		"hostproc": ints([]byte(cfg.HostProc)), "appname": ints([]byte(cfg.AppName)), "servname": ints([]byte(cfg.ServName)),
		"progname": ints([]byte("go-ase/tds")), "progversion": []int{}, "language": ints([]byte(cfg.Language)), "charset": ints([]byte(cfg.CharSet)),
		"seclogin": sec}
	oversized := false
	for _, k := range []string{"hostname", "username", "password", "hostproc", "appname", "servname", "language", "charset"} {
		if len(f[k].([]int)) > 30 {
			oversized = true
		}
	}
	// Channel.Login is the only way to have the record packed: capture it from the transport
	mc := newMemConn()
	conn, _ := tds.NewConnWithTransport(ctxBG(), mc, info, false)
	ch, _ := conn.NewChannel()
	// the record is written with the first message; then Login waits for an answer that never comes
	cctx, cancel := context.WithTimeout(context.Background(), 25*time.Millisecond)
	defer cancel()
	st := "ok"
	func() {
		defer func() {
			if recover() != nil {
				st = "panic"
			}
		}()
		err := ch.Login(cctx, cfg) 
		if err != nil && strings.Contains(err.Error(), "error building login payload") {
			st = "err"
		}
	}()
	var body []byte
	for _, w := range mc.TakeWrites() {
		if len(w) >= 8 {
			body = append(body, w[8:]...)
		}
	}
	rec := []int{}
	pv := []int{}
	if len(body) >= loginRecLen {
		rec = ints(body[:loginRecLen])
		pv = ints(body[473:477])
	}
	f["progversion"] = pv
	r.tr.Emit(Ev{"ev": "LoginRecord", "f": f, "oversized": oversized, "st": st, "rec": rec, "wrote": len(body)})
}

func wireMain(args []string) error {
	fs := flag.NewFlagSet("wire", flag.ExitOnError)
	out := fs.String("out", "wire.ndjson", "trace file")
	seed := fs.Int64("seed", 1, "seed")
	count := fs.Int("count", 20, "cases per package kind")
	prefix := fs.Bool("prefix", false, "C07: also every proper prefix of every encoding")
	mut := fs.Int("mut", 0, "C10: mutation batches")
	fs.Parse(args)
	tr, err := NewTracer(*out)
	if err != nil {
		return err
	}
	r := &wireRun{tr: tr, rng: rand.New(rand.NewSource(*seed))}
	for _, k := range wkinds {
		for i := 0; i < *count; i++ {
			r.generic(k, *prefix || i%2 == 0, *prefix)
		}
	}
	// DYNAMIC / DYNAMIC2: every operation type (the statement travels only with two of them), with and
	// without a statement
	for _, k := range wkinds {
		if k.kind != "DYNAMIC" && k.kind != "DYNAMIC2" {
			continue
		}
		for _, t := range []int{0x01, 0x02, 0x04, 0x08, 0x10, 0x20, 0x40} {
			for _, empty := range []bool{false, true} {
				forceDynType, forceDynEmpty = t, empty
				r.generic(k, true, *prefix)
			}
		}
		forceDynType, forceDynEmpty = -1, false
	}
	if *prefix {
		// packages behind a token the library has no layout for (it reads them as "everything that is
		// there"): whatever has arrived so far, such a package is never complete before its message ends
		for _, tok := range []byte{0x01, 0x0F, 0x7A, 0xA1, 0xC8, 0xFC} {
			r.scn()
			body := randBytes(r.rng, 1+r.rng.Intn(40))
			counts := map[string]int{}
			for k := 0; k <= len(body); k++ {
				for _, eom := range []bool{false, true} {
					p, _ := tds.LookupPackage(tds.Token(tok))
					st, _ := readPkgE(p, body[:k], eom && k > 0)
					counts[st]++
				}
			}
			r.tr.Emit(Ev{"ev": "PrefixTL", "token": int(tok), "n": 2 * (len(body) + 1), "need": counts["need"], "ok": counts["ok"], "err": counts["err"], "panic": counts["panic"]})
		}
	}
	for i := 0; i < *count*3; i++ {
		r.format(*prefix)
	}
	// every data type as the last column of a format (and of the data package behind it)
	for _, dt := range allColTypes {
		r.formatWith(*prefix, int(dt))
		r.formatWith(*prefix, int(dt))
	}
	for i := 0; i < *count; i++ {
		r.envchange(*prefix)
		r.loginack(*prefix)
		r.orderby(*prefix)
	}
	if !*prefix {
		// every string field of every kind at the lengths where its length prefix turns over
		// ("all string lengths 0..max of each length prefix": the boundaries, directed)
		for _, k := range wkinds {
			for _, fd := range k.fields {
				if fd.typ != "str" && fd.typ != "bytes" {
					continue
				}
				for _, n := range boundaryLens(fd.maxLen) {
					reps := 1
					if n > 255 {
						reps = 3 // optional parts vary with the other (random) fields
					}
					for i := 0; i < reps; i++ {
						r.genericWith(k, true, false, fd.name, n)
					}
					if fd.name == "name" && len(k.fields) > 0 && k.fields[0].name == "cursorid" {
						// the cursor kinds: the name at this length with cursor id 0, and (length 0) with another id
						forceCursorID = 0
						r.genericWith(k, true, false, fd.name, n)
						if n == 0 {
							forceCursorID = 1
							r.genericWith(k, true, false, fd.name, n)
						}
						forceCursorID = -1
					}
				}
				for e := range edgeTexts { // NUL / blank / line end at the ends of the value
					r.genericWith(k, true, false, fd.name, -e-1)
				}
			}
		}
		for e := range edgeTexts {
			r.loginackWith(false, edgeTexts[e])
		}
		// ENVCHANGE: every pattern of empty / non-empty values over 1..3 members
		for n := 1; n <= 3; n++ {
			for pat := 0; pat < 1<<(2*n); pat++ {
				r.envchangeWith(false, n, pat)
			}
		}
		for c := 0; c <= 106; c++ { // every single request capability
			r.capability(c)
		}
		for c := 0; c <= 73; c++ { // every single response capability
			r.capability(200 + c)
		}
		for i := 0; i < *count; i++ {
			r.capability(-1)
		}
		for i := 0; i < *count*2; i++ {
			r.loginRecord(i%2 == 0)
		}
		for i := 0; i < *count*3; i++ {
			r.clientParams()
			r.serverFmtParams()
		}
	}
	if *mut > 0 {
		wireMutate(r, *mut)
	}
	runtime.GC()
	return tr.Close()
}

var _ = fmt.Sprint
