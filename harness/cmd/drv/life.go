package main

import (
	"context"
	"encoding/binary"
	"encoding/json"
	"errors"
	"flag"
	"fmt"
	"math/rand"
	"os"
	"runtime"
	"strings"
	"sync"
	"sync/atomic"
	"time"

	"github.com/SAP/go-dblib/tds"
)

func init() { families["life"] = lifeMain }

// lifeOp is one external stimulus of a lifecycle scenario (Lifecycle.tla's hist / directed / random).
type lifeOp struct {
	Op   string `json:"op"`             // peer, next, send, cancel, close, connclose, settle
	N    int    `json:"n,omitempty"`    // peer: number of packages
	Ctx  string `json:"ctx,omitempty"`  // bg, c1, c2, conn, cancelled
	Wait *bool  `json:"wait,omitempty"` // next: wait flag (default true)
	Kind string `json:"kind,omitempty"` // peer: "" = DONE(final) packages, "row" = non-final packages (response stays open)
}

type lifeScn struct {
	K             int      `json:"k"`
	Answers       bool     `json:"answers"`                 // does the peer answer the logout
	Late          bool     `json:"late,omitempty"`          // ... after 300 ms
	Chan          int      `json:"chan,omitempty"`          // 0 or 1
	Watch         int      `json:"watch,omitempty"`         // watchdog in ms (default 1500)
	Burst         bool     `json:"burst,omitempty"`         // the calls are started back to back, without letting each one settle
	Extra         int      `json:"extra,omitempty"`         // further logical channels opened before the one under observation
	LogoutAnswer  string   `json:"logoutanswer,omitempty"`  // what the peer answers the logout with: "" = DONE(final), ret / eed / ack = another package
	NoReadTimeout bool     `json:"noreadtimeout,omitempty"` // Info.PacketReadTimeout = 0 (no read deadline on the transport)
	SlowFirst     int      `json:"slowfirst,omitempty"`     // the transport takes this many ms for the first request packet it is given (a slow network write)
	Ops           []lifeOp `json:"ops"`
}

type lifeRun struct {
	tr      *Tracer
	gen     int64 // generation: events of goroutines of an abandoned scenario are dropped
	cur     *int64
	mc      *memConn
	conn    *tds.Conn
	ch      *tds.Channel
	ctxs    map[string]context.Context
	cancels map[string]context.CancelFunc
	nextVal int
	nextID  int
	mu      sync.Mutex
	pending map[int]string
	wg      sync.WaitGroup
	scn     *lifeScn
	wrote   int64
}

func (r *lifeRun) emit(e Ev) {
	if atomic.LoadInt64(r.cur) != r.gen {
		return
	}
	r.tr.Emit(e)
}

func countReaders() int {
	// the dump of all goroutines must fit: a truncated dump would make the counts before and after equal
	buf := make([]byte, 1<<20)
	n := runtime.Stack(buf, true)
	for n == len(buf) && len(buf) < 1<<28 {
		buf = make([]byte, 4*len(buf))
		n = runtime.Stack(buf, true)
	}
	return strings.Count(string(buf[:n]), "tds.(*Conn).ReadFrom(")
}

func (r *lifeRun) start(call string, op lifeOp, f func(ctx context.Context) (string, Ev)) {
	id := r.nextID
	r.nextID++
	wait := true
	if op.Wait != nil {
		wait = *op.Wait
	}
	cname := op.Ctx
	if cname == "" {
		cname = "bg"
	}
	ctx := r.ctxs[cname]
	r.mu.Lock()
	r.pending[id] = call
	r.mu.Unlock()
	r.emit(Ev{"ev": "CallStart", "id": id, "call": call, "ctx": cname, "wait": wait})
	r.wg.Add(1)
	go func() {
		defer r.wg.Done()
		var outcome string
		var extra Ev
		func() {
			defer func() {
				if p := recover(); p != nil {
					outcome, extra = "panic", nil
				}
			}()
			outcome, extra = f(ctx)
		}()
		e := Ev{"ev": "CallEnd", "id": id, "outcome": outcome, "val": 0, "wrote": 0, "transportClosed": false, "readerEnded": false}
		for k, v := range extra {
			e[k] = v
		}
		r.mu.Lock()
		delete(r.pending, id)
		r.mu.Unlock()
		r.emit(e)
	}()
}

func lifeOutcome(err error) string {
	switch {
	case err == nil:
		return "ok"
	case errors.Is(err, tds.ErrChannelClosed):
		return "closed"
	case errors.Is(err, tds.ErrNoPackageReady):
		return "noready"
	case errors.Is(err, context.Canceled), errors.Is(err, context.DeadlineExceeded):
		return "ctxerr"
	}
	return "err"
}

func runLife(tr *Tracer, cur *int64, scn *lifeScn) {
	gen := atomic.AddInt64(cur, 1)
	r := &lifeRun{tr: tr, gen: gen, cur: cur, ctxs: map[string]context.Context{}, cancels: map[string]context.CancelFunc{},
		pending: map[int]string{}, scn: scn}
	tr.Reset(scn)
	// reader goroutines of earlier scenarios may still be winding down: let their number settle first, or
	// one that ends during this scenario would hide this scenario's reader if that one never ends
	readersBefore := countReaders()
	for i, stable := 0, 0; i < 60 && stable < 5 && readersBefore > 0; i++ {
		time.Sleep(10 * time.Millisecond)
		if n := countReaders(); n == readersBefore {
			stable++
		} else {
			readersBefore, stable = n, 0
		}
	}
	r.mc = newMemConn()
	info := newInfo()
	info.ChannelPackageQueueSize = scn.K
	if scn.NoReadTimeout {
		info.PacketReadTimeout = 0
	}
	connCtx, connCancel := context.WithCancel(context.Background())
	r.ctxs["bg"] = context.Background()
	cc, c := context.WithCancel(context.Background())
	c()
	r.ctxs["cancelled"] = cc
	for _, n := range []string{"c1", "c2"} {
		r.ctxs[n], r.cancels[n] = context.WithCancel(context.Background())
	}
	r.cancels["conn"] = connCancel
	conn, err := tds.NewConnWithTransport(connCtx, r.mc, info, true)
	if err != nil {
		panic(err)
	}
	r.conn = conn
	// the peer: acknowledges channel setups, answers the logout as configured
	var pmu sync.Mutex
	var pbuf []byte
	var slowed int32
	r.mc.onWrite = func(b []byte) {
		atomic.AddInt64(&r.wrote, int64(len(b)))
		if scn.SlowFirst > 0 && len(b) > 8 && b[0] == 15 && atomic.CompareAndSwapInt32(&slowed, 0, 1) {
			time.Sleep(time.Duration(scn.SlowFirst) * time.Millisecond) // the Write call of this packet returns late
		}
		pmu.Lock()
		defer pmu.Unlock()
		pbuf = append(pbuf, b...)
		for len(pbuf) >= 8 {
			hl := int(binary.BigEndian.Uint16(pbuf[2:4]))
			if hl < 8 || hl > len(pbuf) {
				break
			}
			typ, ch := int(pbuf[0]), int(binary.BigEndian.Uint16(pbuf[4:6]))
			body := pbuf[8:hl]
			pbuf = pbuf[hl:]
			switch {
			case typ == 8:
				r.mc.Feed(mkPacket(11, 1, ch, 0, nil))
			case len(body) > 0 && body[0] == tokLogout && scn.Answers:
				// the answer to the logout is one more package on the channel
				send := func() {
					r.mu.Lock()
					r.nextVal++
					v := r.nextVal
					r.mu.Unlock()
					r.emit(Ev{"ev": "PeerSend", "n": 1})
					body := encDone(tokDone, 0, 0, int32(v)).Bytes
					switch scn.LogoutAnswer {
					case "ret":
						body = encRetStat(int32(v)).Bytes
					case "eed":
						body = randEED(rand.New(rand.NewSource(int64(v))), false).Bytes
					case "ack":
						body = encLoginAck(5, [4]byte{5, 0, 0, 0}, "x", [4]byte{1, 0, 0, 0}).Bytes
					}
					r.mc.Feed(mkPacket(4, 1, ch, 0, body))
				}
				if scn.Late {
					time.AfterFunc(300*time.Millisecond, send)
				} else {
					send()
				}
			}
		}
	}
	ch, err := conn.NewChannel()
	if err != nil {
		panic(err)
	}
	var extras []*tds.Channel
	for i := 0; i < scn.Extra; i++ {
		x, err := conn.NewChannel()
		if err != nil {
			r.emit(Ev{"ev": "SetupFailed", "text": err.Error()})
			return
		}
		extras = append(extras, x)
	}
	if scn.Chan > 0 {
		ch, err = conn.NewChannel()
		if err != nil {
			r.emit(Ev{"ev": "SetupFailed", "text": err.Error()})
			return
		}
	}
	r.ch = ch
	chid := ch.VerifChannelID()
	r.emit(Ev{"ev": "Setup", "k": scn.K, "chan": chid, "answers": scn.Answers})
	settle := func() {
		if scn.Burst {
			runtime.Gosched()
			return
		}
		time.Sleep(40 * time.Millisecond)
	}
	for _, op := range scn.Ops {
		op := op
		switch op.Op {
		case "peer":
			n := op.N
			if n == 0 {
				n = 1
			}
			r.emit(Ev{"ev": "PeerSend", "n": n})
			for i := 0; i < n; i++ {
				r.mu.Lock()
				r.nextVal++
				v := r.nextVal
				r.mu.Unlock()
				if op.Kind == "eedonly" {
					// a server message and nothing behind it yet
					r.mc.Feed(mkPacket(4, 0, chid, 0, randEED(rand.New(rand.NewSource(int64(v))), false).Bytes))
				} else if op.Kind == "eedrow" {
					// the response begins with a server message (collected by NextPackageUntil), then a package; no EOM
					body := append(randEED(rand.New(rand.NewSource(int64(v))), false).Bytes, encRetStat(int32(v)).Bytes...)
					r.mc.Feed(mkPacket(4, 0, chid, 0, body))
				} else if op.Kind == "row" {
					r.mc.Feed(mkPacket(4, 0, chid, 0, encRetStat(int32(v)).Bytes)) // no EOM: the response is not finished
				} else {
					r.mc.Feed(mkPacket(4, 1, chid, 0, encDone(tokDone, 0, 0, int32(v)).Bytes))
				}
			}
			settle()
		case "closeother":
			// one of the other logical channels is closed on its own (not the one under observation)
			r.emit(Ev{"ev": "Stray", "n": 0})
			if op.N < len(extras) {
				done := make(chan struct{})
				go func() { extras[op.N].Close(); close(done) }()
				select {
				case <-done:
				case <-time.After(time.Second):
				}
			}
			settle()
		case "floodother":
			// malformed responses for another logical channel, more than its error queue holds, nobody receiving
			// there: that is that channel's trouble, the channel under observation is not told about it
			r.emit(Ev{"ev": "Stray", "n": 0})
			if len(extras) > 0 {
				oid := extras[0].VerifChannelID()
				for i := 0; i < op.N; i++ {
					r.mc.Feed(mkPacket(4, 1, oid, 0, []byte{tokRow, 0, 0})) // a ROW without a format
				}
			}
			time.Sleep(60 * time.Millisecond)
			settle()
		case "proto":
			// a header-only packet of the channel protocol (an acknowledgement nobody waits for)
			r.emit(Ev{"ev": "Stray", "n": 1})
			r.mc.Feed(mkPacket(11, 1, chid, 0, nil))
			settle()
		case "failwrite":
			// the transport refuses every further write
			r.emit(Ev{"ev": "WriteFails"})
			r.mc.mu.Lock()
			r.mc.failAfter = r.mc.wrote
			r.mc.mu.Unlock()
			settle()
		case "stray":
			// packets for a channel that never existed: nobody consumes the connection errors they cause
			r.emit(Ev{"ev": "Stray", "n": op.N})
			for i := 0; i < op.N; i++ {
				r.mc.Feed(mkPacket(4, 1, 77, 0, encDone(tokDone, 0, 0, 0).Bytes))
			}
			// let the reader take what it can take (it stops when the connection's error queue is full)
			for i, last, stable := 0, -1, 0; i < 100 && stable < 4; i++ {
				time.Sleep(5 * time.Millisecond)
				r.mc.mu.Lock()
				n := len(r.mc.rq)
				r.mc.mu.Unlock()
				if n == last {
					stable++
				} else {
					last, stable = n, 0
				}
			}
			if os.Getenv("LIFE_DEBUG") != "" {
				r.mc.mu.Lock()
				fmt.Fprintf(os.Stderr, "LIFE_DEBUG stray: fed %d readers %d rq %d\n", op.N, countReaders(), len(r.mc.rq))
				r.mc.mu.Unlock()
			}
			settle()
		case "until":
			// NextPackageUntil whose callback fails on the first non-final package (the library then
			// consumes the rest of the response) and stops at a final DONE
			r.start("until", op, func(ctx context.Context) (string, Ev) {
				cbErr := errors.New("callback failed")
				pkg, err := ch.NextPackageUntil(ctx, true, func(p tds.Package) (bool, error) {
					if d, ok := p.(*tds.DonePackage); ok && d.Status == tds.TDS_DONE_FINAL {
						return true, nil
					}
					return false, cbErr
				})
				switch {
				case err == nil && pkg != nil:
					return "pkg", nil
				case err == nil:
					return "nilpkg", nil
				case errors.Is(err, cbErr):
					return "cberr", nil
				}
				return lifeOutcome(err), nil
			})
			settle()
		case "next":
			wait := op.Wait == nil || *op.Wait
			r.start("next", op, func(ctx context.Context) (string, Ev) {
				pkg, err := ch.NextPackage(ctx, wait)
				if err != nil {
					return lifeOutcome(err), nil
				}
				if pkg == nil {
					return "nilpkg", nil // neither a package nor an error
				}
				v := 0
				if d, ok := pkg.(*tds.DonePackage); ok {
					v = int(d.Count)
				}
				return "pkg", Ev{"val": v}
			})
			settle()
		case "send", "sendbig":
			cmd := "select 1"
			if op.Op == "sendbig" {
				// a message of several packets: the first ones go out while the package is still being queued
				cmd = "select '" + strings.Repeat("x", 1500) + "'"
			}
			r.start("send", op, func(ctx context.Context) (string, Ev) {
				before := atomic.LoadInt64(&r.wrote)
				err := ch.SendPackage(ctx, &tds.LanguagePackage{Cmd: cmd})
				return lifeOutcome(err), Ev{"wrote": int(atomic.LoadInt64(&r.wrote) - before)}
			})
			settle()
		case "flush", "queue":
			// the other entry points of the send side: every call on a closed channel reports the closed condition
			api := op.Op
			r.start("send", op, func(ctx context.Context) (string, Ev) {
				before := atomic.LoadInt64(&r.wrote)
				var err error
				if api == "flush" {
					err = ch.SendRemainingPackets(ctx)
				} else {
					err = ch.QueuePackage(ctx, &tds.LanguagePackage{Cmd: "select 1"})
					if err == nil {
						err = ch.SendRemainingPackets(ctx)
					}
				}
				return lifeOutcome(err), Ev{"wrote": int(atomic.LoadInt64(&r.wrote) - before), "api": api}
			})
			settle()
		case "cancel":
			r.emit(Ev{"ev": "Cancel", "ctx": op.Ctx})
			r.cancels[op.Ctx]()
			settle()
		case "close":
			r.start("close", op, func(ctx context.Context) (string, Ev) {
				err := ch.Close()
				if errors.Is(err, tds.ErrChannelClosed) {
					return "closed", nil
				}
				if err != nil {
					return "err", nil
				}
				return "ok", nil
			})
			settle()
		case "connclose":
			r.start("connclose", op, func(ctx context.Context) (string, Ev) {
				err := conn.Close()
				// the reader goroutine must end: wait a little for it
				ended := false
				for i := 0; i < 40 && !ended; i++ {
					time.Sleep(10 * time.Millisecond)
					ended = countReaders() <= readersBefore
				}
				if os.Getenv("LIFE_DEBUG") != "" {
					r.mc.mu.Lock()
					fmt.Fprintf(os.Stderr, "LIFE_DEBUG connclose: readers now %d before %d ended %v rq %d\n", countReaders(), readersBefore, ended, len(r.mc.rq))
					r.mc.mu.Unlock()
				}
				r.mc.mu.Lock()
				tc := r.mc.nclose > 0
				r.mc.mu.Unlock()
				out := "ok"
				if err != nil {
					out = "err"
				}
				return out, Ev{"transportClosed": tc, "readerEnded": ended}
			})
			settle()
		case "settle":
			settle()
		}
	}
	watch := scn.Watch
	if watch == 0 {
		watch = 1500
	}
	// watchdog: everything that can return has returned after this
	donech := make(chan struct{})
	go func() { r.wg.Wait(); close(donech) }()
	select {
	case <-donech:
	case <-time.After(time.Duration(watch) * time.Millisecond):
	}
	r.mu.Lock()
	var ids []int
	for id := range r.pending {
		ids = append(ids, id)
	}
	pend := map[int]string{}
	for k, v := range r.pending {
		pend[k] = v
	}
	r.mu.Unlock()
	// hung Close calls first (other hung calls may be their consequence)
	for pass := 0; pass < 2; pass++ {
		for id := 0; id < r.nextID; id++ {
			call, ok := pend[id]
			if !ok {
				continue
			}
			isClose := call == "close" || call == "connclose"
			if (pass == 0) == isClose {
				r.emit(Ev{"ev": "Hung", "id": id, "call": call, "waited": watch})
			}
		}
	}
	_ = ids
	r.emit(Ev{"ev": "End"})
	// abandon whatever still hangs: cancel everything, close the transport
	atomic.AddInt64(cur, 1)
	for _, c := range r.cancels {
		c()
	}
	r.mc.Close()
}

func bp(b bool) *bool { return &b }

func lifeMain(args []string) error {
	fs := flag.NewFlagSet("life", flag.ExitOnError)
	out := fs.String("out", "life.ndjson", "trace file")
	seed := fs.Int64("seed", 1, "seed")
	scnf := fs.String("scn", "", "behaviours generated by TLC from Lifecycle.tla")
	directed := fs.Bool("directed", false, "directed scenarios (fill levels, cancel / close interleavings)")
	count := fs.Int("count", 0, "random scenarios")
	slow := fs.Bool("slow", false, "include the peer that never answers the logout (about 60 s)")
	slowOnly := fs.Bool("slowonly", false, "only the scenarios with a peer that never answers the logout (Close returns after the logout's own minute)")
	floodOnly := fs.Bool("floodonly", false, "of the directed scenarios only those in which another channel's error queue overflows (C12: isolation)")
	logoutOnly := fs.Bool("logoutonly", false, "of the directed scenarios only those in which the peer answers the logout with another package than DONE (C10)")
	part := fs.Int("part", 0, "process index")
	parts := fs.Int("parts", 1, "processes")
	fs.Parse(args)
	tr, err := NewTracer(*out)
	if err != nil {
		return err
	}
	rng := rand.New(rand.NewSource(*seed + int64(*part)))
	var cur int64
	var scns []lifeScn
	if *scnf != "" {
		b, err := os.ReadFile(*scnf)
		if err != nil {
			return err
		}
		var gen []struct {
			K       int      `json:"k"`
			Answers bool     `json:"answers"`
			Ops     []lifeOp `json:"ops"`
		}
		if err := json.Unmarshal(b, &gen); err != nil {
			return err
		}
		for _, g := range gen {
			s := lifeScn{K: g.K, Answers: g.Answers}
			for _, o := range g.Ops {
				switch o.Op {
				case "peer":
					s.Ops = append(s.Ops, lifeOp{Op: "peer", N: 1})
				case "next":
					s.Ops = append(s.Ops, lifeOp{Op: "next", Ctx: "c1"})
				case "cancel":
					s.Ops = append(s.Ops, lifeOp{Op: "cancel", Ctx: "c1"})
				case "close":
					s.Ops = append(s.Ops, lifeOp{Op: "close"})
				}
			}
			scns = append(scns, s)
		}
	}
	if *directed {
		for _, k := range []int{1, 2, 4} {
			for fill := 0; fill <= k+2; fill++ {
				for chn := 0; chn <= 1; chn++ {
					// Close at every fill level of the receive queue (response abandoned after j packages)
					scns = append(scns, lifeScn{K: k, Answers: true, Chan: chn, Ops: []lifeOp{{Op: "peer", N: fill}, {Op: "close"}, {Op: "next"}, {Op: "send"}}})
					// receive, then cancel, at every fill level
					scns = append(scns, lifeScn{K: k, Answers: true, Chan: chn, Ops: []lifeOp{{Op: "peer", N: fill}, {Op: "next", Ctx: "c1"}, {Op: "next", Ctx: "c1"},
						{Op: "next", Ctx: "c1"}, {Op: "cancel", Ctx: "c1"}, {Op: "next", Ctx: "c1"}}})
				}
			}
			// cancel while blocked, packets arriving meanwhile
			scns = append(scns, lifeScn{K: k, Answers: true, Ops: []lifeOp{{Op: "next", Ctx: "c1"}, {Op: "cancel", Ctx: "c1"}, {Op: "peer", N: 1}, {Op: "next", Ctx: "c2"}}})
			scns = append(scns, lifeScn{K: k, Answers: true, Ops: []lifeOp{{Op: "next", Ctx: "c1"}, {Op: "peer", N: 1}, {Op: "cancel", Ctx: "c1"}, {Op: "next", Ctx: "c1"}}})
			// the connection's context is cancelled
			scns = append(scns, lifeScn{K: k, Answers: true, Ops: []lifeOp{{Op: "next"}, {Op: "cancel", Ctx: "conn"}, {Op: "next"}, {Op: "send"}}})
			// Close while a receiver is blocked
			scns = append(scns, lifeScn{K: k, Answers: true, Chan: 1, Ops: []lifeOp{{Op: "next"}, {Op: "close"}}})
			scns = append(scns, lifeScn{K: k, Answers: true, Chan: 1, Ops: []lifeOp{{Op: "next", Ctx: "c1"}, {Op: "close"}, {Op: "cancel", Ctx: "c1"}}})
			// Close twice, calls after Close
			scns = append(scns, lifeScn{K: k, Answers: true, Chan: 1, Ops: []lifeOp{{Op: "close"}, {Op: "close"}, {Op: "next"}, {Op: "next", Wait: bp(false)}, {Op: "send"}, {Op: "peer", N: 1}, {Op: "next"}}})
			scns = append(scns, lifeScn{K: k, Answers: true, Chan: 0, Ops: []lifeOp{{Op: "close"}, {Op: "close"}, {Op: "next"}, {Op: "send"}}})
			// Conn.Close closes channels and transport and ends the reader
			scns = append(scns, lifeScn{K: k, Answers: true, Ops: []lifeOp{{Op: "connclose"}, {Op: "next"}, {Op: "send"}}})
			scns = append(scns, lifeScn{K: k, Answers: true, Late: true, Ops: []lifeOp{{Op: "peer", N: 1}, {Op: "next"}, {Op: "connclose"}, {Op: "next"}}})
			scns = append(scns, lifeScn{K: k, Answers: true, Chan: 1, Ops: []lifeOp{{Op: "connclose"}, {Op: "next"}}})
			// a consumer callback fails in mid-response, the peer goes silent, the caller cancels
			scns = append(scns, lifeScn{K: k + 2, Answers: true, Ops: []lifeOp{{Op: "peer", N: 1, Kind: "row"}, {Op: "until", Ctx: "c1"}, {Op: "cancel", Ctx: "c1"}}})
			// ... also when the response began with a server message: the error still wraps the context's error
			scns = append(scns, lifeScn{K: k + 3, Answers: true, Ops: []lifeOp{{Op: "peer", N: 1, Kind: "eedrow"}, {Op: "until", Ctx: "c1"}, {Op: "cancel", Ctx: "c1"}}})
			scns = append(scns, lifeScn{K: k + 3, Answers: true, Chan: 1, Ops: []lifeOp{{Op: "peer", N: 1, Kind: "eedrow"}, {Op: "until"}, {Op: "cancel", Ctx: "conn"}}})
			scns = append(scns, lifeScn{K: k + 3, Answers: true, Chan: 1, Ops: []lifeOp{{Op: "peer", N: 1, Kind: "eedrow"}, {Op: "until"}, {Op: "close"}}})
			scns = append(scns, lifeScn{K: k + 3, Answers: true, Ops: []lifeOp{{Op: "peer", N: 1, Kind: "eedonly"}, {Op: "until", Ctx: "c1"}, {Op: "cancel", Ctx: "c1"}}})
			scns = append(scns, lifeScn{K: k + 3, Answers: true, Chan: 1, Ops: []lifeOp{{Op: "peer", N: 1, Kind: "eedonly"}, {Op: "until"}, {Op: "cancel", Ctx: "conn"}}})
			scns = append(scns, lifeScn{K: k + 3, Answers: true, Chan: 1, Ops: []lifeOp{{Op: "peer", N: 1, Kind: "eedonly"}, {Op: "until"}, {Op: "close"}}})
			scns = append(scns, lifeScn{K: k + 2, Answers: true, Chan: 1, Ops: []lifeOp{{Op: "until", Ctx: "c1"}, {Op: "peer", N: 2, Kind: "row"}, {Op: "cancel", Ctx: "c1"}}})
			scns = append(scns, lifeScn{K: k + 2, Answers: true, Ops: []lifeOp{{Op: "peer", N: 1, Kind: "row"}, {Op: "until", Ctx: "c1"}, {Op: "peer", N: 1}}})
			scns = append(scns, lifeScn{K: k + 2, Answers: true, Ops: []lifeOp{{Op: "peer", N: 1, Kind: "row"}, {Op: "until"}, {Op: "cancel", Ctx: "conn"}}})
			// every channel closed before the connection is closed; no channel ever used
			scns = append(scns, lifeScn{K: k, Answers: true, Ops: []lifeOp{{Op: "close"}, {Op: "connclose"}, {Op: "next"}}})
			scns = append(scns, lifeScn{K: k, Answers: true, Chan: 1, Ops: []lifeOp{{Op: "close"}, {Op: "connclose"}}})
			// overlapping Close calls on one channel (the logout is answered late, so both are past the
			// entry check before either takes the lock); Channel.Close overlapping with Conn.Close
			scns = append(scns, lifeScn{K: k, Answers: true, Late: true, Ops: []lifeOp{{Op: "close"}, {Op: "close"}, {Op: "next"}}})
			scns = append(scns, lifeScn{K: k, Answers: true, Late: true, Ops: []lifeOp{{Op: "close"}, {Op: "connclose"}, {Op: "send"}}})
			scns = append(scns, lifeScn{K: k, Answers: true, Late: true, Ops: []lifeOp{{Op: "connclose"}, {Op: "close"}, {Op: "close"}}})
			// more stray packets than the connection's error queue holds, nobody consuming: Conn.Close
			// still ends the reader
			scns = append(scns, lifeScn{K: k, Answers: true, Ops: []lifeOp{{Op: "stray", N: 40 + 2*k}, {Op: "connclose"}}})
			scns = append(scns, lifeScn{K: k, Answers: true, Chan: 1, Ops: []lifeOp{{Op: "stray", N: 40}, {Op: "close"}, {Op: "connclose"}}})
			// ... and with no channel left open: Conn.Close has no logout to perform, so it consumes none of the errors itself
			scns = append(scns, lifeScn{K: k, Answers: true, Ops: []lifeOp{{Op: "close"}, {Op: "stray", N: 25 + k}, {Op: "connclose"}}})
			// calls started at the same moment as Close / Conn.Close (no settling in between): whatever the
			// interleaving, each returns a package, the closed condition or an error - never (nil, nil)
			for rep := 0; rep < 6; rep++ {
				scns = append(scns, lifeScn{K: k, Answers: true, Chan: rep % 2, Burst: true, Ops: []lifeOp{{Op: "next"}, {Op: "close"}, {Op: "next"},
					{Op: "next", Wait: bp(false)}, {Op: "send"}, {Op: "next"}}})
				scns = append(scns, lifeScn{K: k, Answers: true, Chan: rep % 2, Burst: true, Ops: []lifeOp{{Op: "peer", N: 1}, {Op: "connclose"}, {Op: "next"},
					{Op: "next"}, {Op: "send"}}})
			}
			// the connection's context ends first, Conn.Close afterwards: it still closes channels and
			// transport and ends the reader
			scns = append(scns, lifeScn{K: k, Answers: true, Ops: []lifeOp{{Op: "cancel", Ctx: "conn"}, {Op: "connclose"}, {Op: "next"}, {Op: "send"}}})
			scns = append(scns, lifeScn{K: k, Answers: true, Chan: 1, Ops: []lifeOp{{Op: "peer", N: 1}, {Op: "cancel", Ctx: "conn"}, {Op: "connclose"}, {Op: "next"}}})
			// the peer answers the logout with something else than a DONE: Close reports an error, nothing more
			for _, la := range []string{"ret", "eed", "ack"} {
				scns = append(scns, lifeScn{K: k, Answers: true, LogoutAnswer: la, Ops: []lifeOp{{Op: "close"}, {Op: "next"}}})
				scns = append(scns, lifeScn{K: k, Answers: true, LogoutAnswer: la, Ops: []lifeOp{{Op: "peer", N: 1}, {Op: "next"}, {Op: "connclose"}}})
			}
			// the package queue is exactly full, a header-only protocol packet arrives, then Close
			for fill := k - 1; fill <= k+1; fill++ {
				if fill < 0 {
					continue
				}
				scns = append(scns, lifeScn{K: k, Answers: true, Chan: 1, Ops: []lifeOp{{Op: "peer", N: fill}, {Op: "proto"}, {Op: "close"}, {Op: "next"}}})
				if fill+2 <= k {
					// (with the reader parked on channel 1's full queue the logout answer for channel 0 cannot be
					// routed: Conn.Close then takes the library's one-minute logout timeout - bounded, not judged here)
					scns = append(scns, lifeScn{K: k, Answers: true, Chan: 1, Ops: []lifeOp{{Op: "peer", N: fill}, {Op: "proto"}, {Op: "proto"}, {Op: "connclose"}}})
				}
			}
			// several logical channels, one of the lower ones closed on its own, then Conn.Close: every
			// remaining channel is closed by it
			scns = append(scns, lifeScn{K: k, Answers: true, Chan: 1, Extra: 2, Ops: []lifeOp{{Op: "closeother", N: 0}, {Op: "connclose"}, {Op: "next"}, {Op: "send"}}})
			scns = append(scns, lifeScn{K: k, Answers: true, Chan: 1, Extra: 3, Ops: []lifeOp{{Op: "closeother", N: 1}, {Op: "closeother", N: 0}, {Op: "connclose"}, {Op: "next", Wait: bp(false)}}})
			// Close while a send is still inside its transport write
			// another channel's error queue overflows: this channel is not handed that channel's errors (the reader
			// goroutine waits for room there, as it does behind a full package queue - so nothing is *received* here
			// meanwhile, which is the library's flow control and not judged)
			scns = append(scns, lifeScn{K: k, Answers: true, Chan: 1, Extra: 1, Ops: []lifeOp{{Op: "floodother", N: 14}, {Op: "next", Wait: bp(false)}, {Op: "next", Wait: bp(false)}, {Op: "send"}}})
			scns = append(scns, lifeScn{K: k, Answers: true, Chan: 0, Extra: 1, Ops: []lifeOp{{Op: "floodother", N: 25}, {Op: "next", Wait: bp(false)}, {Op: "send"}}})
			// every entry point of the send side on a closed channel, and with a cancelled context
			scns = append(scns, lifeScn{K: k, Answers: true, Chan: 1, Ops: []lifeOp{{Op: "flush"}, {Op: "queue"}, {Op: "close"}, {Op: "flush"}, {Op: "queue"}, {Op: "send"}}})
			scns = append(scns, lifeScn{K: k, Answers: true, Ops: []lifeOp{{Op: "queue", Ctx: "cancelled"}, {Op: "flush", Ctx: "cancelled"}, {Op: "connclose"}, {Op: "flush"}, {Op: "queue"}}})
			// the teardown packet cannot be sent: the channel is closed all the same
			scns = append(scns, lifeScn{K: k, Answers: true, Chan: 1, Ops: []lifeOp{{Op: "next"}, {Op: "failwrite"}, {Op: "close"}, {Op: "next"}, {Op: "send"}, {Op: "close"}}})
			scns = append(scns, lifeScn{K: k, Answers: true, Chan: 1, Extra: 2, Ops: []lifeOp{{Op: "peer", N: 1}, {Op: "failwrite"}, {Op: "connclose"}, {Op: "next"}, {Op: "next"}, {Op: "send"}}})
			scns = append(scns, lifeScn{K: k, Answers: true, Chan: 1, SlowFirst: 200, Ops: []lifeOp{{Op: "send"}, {Op: "close"}, {Op: "next"}}})
			scns = append(scns, lifeScn{K: k, Answers: true, Chan: 0, SlowFirst: 200, Ops: []lifeOp{{Op: "send"}, {Op: "connclose"}}})
			scns = append(scns, lifeScn{K: k, Answers: true, Chan: 1, SlowFirst: 200, Ops: []lifeOp{{Op: "sendbig"}, {Op: "close"}, {Op: "next"}}})
			scns = append(scns, lifeScn{K: k, Answers: true, Chan: 0, SlowFirst: 200, Ops: []lifeOp{{Op: "sendbig"}, {Op: "connclose"}, {Op: "send"}}})
			// sends with cancelled contexts
			scns = append(scns, lifeScn{K: k, Answers: true, Ops: []lifeOp{{Op: "send", Ctx: "cancelled"}, {Op: "send"}, {Op: "send", Ctx: "cancelled"}}})
		}
		if *slow {
			scns = append(scns, lifeScn{K: 2, Answers: false, Watch: 66000, Ops: []lifeOp{{Op: "close"}, {Op: "next"}}})
		}
	}
	if *slowOnly {
		// a peer that never answers the logout: Close comes back when the logout's own bound (one minute) is over,
		// whatever the read timeout of the transport is - also none at all
		scns = nil
		scns = append(scns, lifeScn{K: 2, Answers: false, Watch: 66000, Ops: []lifeOp{{Op: "close"}, {Op: "next"}}})
		scns = append(scns, lifeScn{K: 2, Answers: false, NoReadTimeout: true, Watch: 66000, Ops: []lifeOp{{Op: "close"}, {Op: "next"}}})
		scns = append(scns, lifeScn{K: 2, Answers: false, NoReadTimeout: true, Chan: 1, Watch: 66000, Ops: []lifeOp{{Op: "connclose"}, {Op: "next"}}})
		*count = 0
	}
	for i := 0; i < *count; i++ {
		k := 1 + rng.Intn(3)
		s := lifeScn{K: k, Answers: true, Late: rng.Intn(4) == 0, Chan: rng.Intn(2)}
		closed := false
		for j := 0; j < 3+rng.Intn(6); j++ {
			switch c := rng.Intn(10); {
			case c < 3:
				s.Ops = append(s.Ops, lifeOp{Op: "peer", N: 1 + rng.Intn(k+2)})
			case c < 6:
				s.Ops = append(s.Ops, lifeOp{Op: "next", Ctx: []string{"bg", "c1", "c2", "cancelled"}[rng.Intn(4)], Wait: bp(rng.Intn(4) > 0)})
			case c < 7:
				s.Ops = append(s.Ops, lifeOp{Op: "cancel", Ctx: []string{"c1", "c2"}[rng.Intn(2)]})
			case c < 8:
				s.Ops = append(s.Ops, lifeOp{Op: "send", Ctx: []string{"bg", "c1", "cancelled"}[rng.Intn(3)]})
			case c < 9:
				if !closed || rng.Intn(3) == 0 {
					s.Ops = append(s.Ops, lifeOp{Op: "close"})
					closed = true
				}
			default:
				if rng.Intn(3) == 0 {
					s.Ops = append(s.Ops, lifeOp{Op: "cancel", Ctx: "conn"})
				}
			}
		}
		scns = append(scns, s)
	}
	if *floodOnly {
		var keep []lifeScn
		for _, sc := range scns {
			for _, o := range sc.Ops {
				if o.Op == "floodother" {
					keep = append(keep, sc)
					break
				}
			}
		}
		scns = keep
	}
	if *logoutOnly {
		var keep []lifeScn
		for _, sc := range scns {
			if sc.LogoutAnswer != "" {
				keep = append(keep, sc)
			}
		}
		scns = keep
	}
	for i := range scns {
		if i%*parts != *part {
			continue
		}
		if scns[i].K == 0 {
			scns[i].K = 1
		}
		runLife(tr, &cur, &scns[i])
	}
	return tr.Close()
}
