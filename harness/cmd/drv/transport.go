package main

import (
	"encoding/binary"
	"errors"
	"io"
	"sync"
)

// memConn is the harness-owned in-memory transport handed to tds.NewConnWithTransport.
// Reads return exactly the scripted chunks / errors (so read partitions and failure offsets are
// deterministic); writes are captured whole.
type memConn struct {
	mu      sync.Mutex
	cond    *sync.Cond
	rq      []readItem
	writes  [][]byte
	closed  bool
	nclose  int
	onRead  func(n int, err error) // called under no lock, after the read result is decided
	onWrite func(p []byte)
	// write failure script: fail once wrote >= failAfter (if failAfter >= 0)
	failAfter    int
	wrote        int
	failErr      error
	failedWrites int  // writes that were answered with the failure
	failFull     bool // a failing write takes all bytes and reports the error beside the full count
	// when the read script is exhausted: block (default) or return idleErr
	idleErr error
}

type readItem struct {
	data []byte
	err  error
	// tail: returned together with the last bytes of data (an io.Reader may return n > 0 and an error)
	tail error
}

func newMemConn() *memConn {
	m := &memConn{failAfter: -1}
	m.cond = sync.NewCond(&m.mu)
	return m
}

func (m *memConn) Feed(chunk []byte) {
	m.mu.Lock()
	m.rq = append(m.rq, readItem{data: append([]byte(nil), chunk...)})
	m.mu.Unlock()
	m.cond.Broadcast()
}

func (m *memConn) FeedErr(err error) {
	m.mu.Lock()
	m.rq = append(m.rq, readItem{err: err})
	m.mu.Unlock()
	m.cond.Broadcast()
}

func (m *memConn) Read(p []byte) (int, error) {
	if len(p) == 0 {
		return 0, nil // like a net.Conn: a zero-length read does not block
	}
	m.mu.Lock()
	for len(m.rq) == 0 && !m.closed && m.idleErr == nil {
		m.cond.Wait()
	}
	var n int
	var err error
	switch {
	case len(m.rq) > 0:
		it := &m.rq[0]
		if it.err != nil {
			err = it.err
			m.rq = m.rq[1:]
		} else {
			n = copy(p, it.data)
			it.data = it.data[n:]
			if len(it.data) == 0 {
				err = it.tail
				m.rq = m.rq[1:]
			}
		}
	case m.closed:
		err = io.ErrClosedPipe
	default:
		err = m.idleErr
	}
	cb := m.onRead
	m.mu.Unlock()
	if cb != nil {
		cb(n, err)
	}
	return n, err
}

func (m *memConn) Write(p []byte) (int, error) {
	m.mu.Lock()
	if m.closed {
		m.mu.Unlock()
		return 0, io.ErrClosedPipe
	}
	if m.failAfter >= 0 && m.wrote+len(p) > m.failAfter {
		k := m.failAfter - m.wrote
		if k < 0 {
			k = 0
		}
		e := m.failErr
		if e == nil {
			e = errors.New("write: connection reset by peer")
		}
		m.failedWrites++
		if m.failFull {
			// the bytes are taken, the error is reported beside the full count (an io.Writer may do that)
			m.writes = append(m.writes, append([]byte(nil), p...))
			m.wrote += len(p)
			m.mu.Unlock()
			return len(p), e
		}
		m.writes = append(m.writes, append([]byte(nil), p[:k]...))
		m.wrote += k
		m.mu.Unlock()
		return k, e
	}
	m.writes = append(m.writes, append([]byte(nil), p...))
	m.wrote += len(p)
	cb := m.onWrite
	m.mu.Unlock()
	if cb != nil {
		cb(p)
	}
	return len(p), nil
}

func (m *memConn) Close() error {
	m.mu.Lock()
	m.closed = true
	m.nclose++
	m.mu.Unlock()
	m.cond.Broadcast()
	return nil
}

// TakeWrites returns and clears the captured writes.
func (m *memConn) TakeWrites() [][]byte {
	m.mu.Lock()
	defer m.mu.Unlock()
	w := m.writes
	m.writes = nil
	return w
}

// wirePacket is a TDS packet as parsed by the harness from the captured byte stream.
type wirePacket struct {
	Typ, Status   int
	HLen          int
	Chan, Nr, Win int
	Body          []byte
}

// parsePackets parses a byte stream into consecutive packets by their header length.
// rest is what could not be parsed (short header, length < 8, short body).
func parsePackets(stream []byte) (pkts []wirePacket, rest []byte) {
	for len(stream) > 0 {
		if len(stream) < 8 {
			return pkts, stream
		}
		hl := int(binary.BigEndian.Uint16(stream[2:4]))
		if hl < 8 || hl > len(stream) {
			return pkts, stream
		}
		pkts = append(pkts, wirePacket{Typ: int(stream[0]), Status: int(stream[1]), HLen: hl,
			Chan: int(binary.BigEndian.Uint16(stream[4:6])), Nr: int(stream[6]), Win: int(stream[7]),
			Body: stream[8:hl]})
		stream = stream[hl:]
	}
	return pkts, nil
}

// mkPacket builds the bytes of one TDS packet.
func mkPacket(typ, status, ch, nr int, body []byte) []byte {
	b := make([]byte, 8+len(body))
	b[0] = byte(typ)
	b[1] = byte(status)
	binary.BigEndian.PutUint16(b[2:4], uint16(8+len(body)))
	binary.BigEndian.PutUint16(b[4:6], uint16(ch))
	b[6] = byte(nr)
	copy(b[8:], body)
	return b
}

// encEnvChange encodes an ENVCHANGE package (harness's own encoder).
func encEnvChange(members ...[3]string) []byte {
	var body []byte
	for _, m := range members {
		body = append(body, m[0][0])
		body = append(body, byte(len(m[1])))
		body = append(body, m[1]...)
		body = append(body, byte(len(m[2])))
		body = append(body, m[2]...)
	}
	out := []byte{0xE3, byte(len(body)), byte(len(body) >> 8)}
	return append(out, body...)
}
