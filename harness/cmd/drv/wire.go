package main

// The harness's own TDS 5.0 encoder for server-side packages (R7: the scripted peer never uses
// the library's WriteTo/ReadFrom). Layouts follow WireTables.tla / DESIGN.md Appendix B.

import (
	"encoding/binary"
	"math/rand"
)

// wPkg is one package of a server response as the harness built it.
type wPkg struct {
	Kind  string      `json:"kind"`
	Bytes []byte      `json:"-"`
	Pass  bool        `json:"pass"`  // reaches the consumer (not an ENVCHANGE, not an info EED)
	Final bool        `json:"final"` // DONE family with status 0
	Done  bool        `json:"done"`  // DONE family
	Hook  bool        `json:"hook"`  // non-info EED: handed to the EED hooks
	MsgNo int         `json:"msgno"` // EED message number
	Env   [][3]string `json:"env"`   // ENVCHANGE members: type, new, old
	Cols  []wCol      `json:"-"`     // format packages: the columns
}

type wCol struct {
	dt     byte
	status uint32
	prec   byte
	scale  byte
}

type wbuf struct{ b []byte }

func (w *wbuf) u8(v int)     { w.b = append(w.b, byte(v)) }
func (w *wbuf) u16(v int)    { w.b = binary.LittleEndian.AppendUint16(w.b, uint16(v)) }
func (w *wbuf) u32(v uint32) { w.b = binary.LittleEndian.AppendUint32(w.b, v) }
func (w *wbuf) u64(v uint64) { w.b = binary.LittleEndian.AppendUint64(w.b, v) }
func (w *wbuf) raw(b []byte) { w.b = append(w.b, b...) }
func (w *wbuf) s8(s string)  { w.u8(len(s)); w.b = append(w.b, s...) }
func (w *wbuf) s16(s string) { w.u16(len(s)); w.b = append(w.b, s...) }

const (
	tokEED        = 0xE5
	tokError      = 0xAA
	tokLoginAck   = 0xAD
	tokDone       = 0xFD
	tokDoneProc   = 0xFE
	tokDoneInProc = 0xFF
	tokMsg        = 0x65
	tokParamFmt   = 0xEC
	tokParamFmt2  = 0x20
	tokRowFmt     = 0xEE
	tokRowFmt2    = 0x61
	tokParams     = 0xD7
	tokRow        = 0xD1
	tokCapability = 0xE2
	tokEnvChange  = 0xE3
	tokOrderBy    = 0xA9
	tokOrderBy2   = 0x22
	tokRetStat    = 0x79
	tokLogout     = 0x71
	tokDynamic    = 0xE7
	tokDynamic2   = 0x62
	tokLanguage   = 0x21
)

func encDone(tok int, status, tran int, count int32) wPkg {
	w := &wbuf{}
	w.u8(tok)
	w.u16(status)
	w.u16(tran)
	w.u32(uint32(count))
	k := map[int]string{tokDone: "DONE", tokDoneProc: "DONEPROC", tokDoneInProc: "DONEINPROC"}[tok]
	return wPkg{Kind: k, Bytes: w.b, Pass: true, Done: true, Final: status == 0}
}

func encEED(msgNo int, state, class int, sqlState string, status int, tran int, msg, server, proc string, line int) wPkg {
	body := &wbuf{}
	body.u32(uint32(msgNo))
	body.u8(state)
	body.u8(class)
	body.s8(sqlState)
	body.u8(status)
	body.u16(tran)
	body.s16(msg)
	body.s8(server)
	body.s8(proc)
	body.u16(line)
	w := &wbuf{}
	w.u8(tokEED)
	w.u16(len(body.b))
	w.raw(body.b)
	info := status&0x2 == 0x2 // TDS_EED_INFO
	return wPkg{Kind: "EED", Bytes: w.b, Pass: !info, Hook: !info, MsgNo: msgNo}
}

func encEnv(members [][3]string) wPkg {
	var ms [][3]string
	ms = append(ms, members...)
	return wPkg{Kind: "ENVCHANGE", Bytes: encEnvChange(members...), Pass: false, Env: ms}
}

func encMsg(status, id int) wPkg {
	w := &wbuf{}
	w.u8(tokMsg)
	w.u8(3)
	w.u8(status)
	w.u16(id)
	return wPkg{Kind: "MSG", Bytes: w.b, Pass: true}
}

func encRetStat(v int32) wPkg {
	w := &wbuf{}
	w.u8(tokRetStat)
	w.u32(uint32(v))
	return wPkg{Kind: "RETURNSTATUS", Bytes: w.b, Pass: true}
}

func encLoginAck(status int, ver [4]byte, prog string, pver [4]byte) wPkg {
	body := &wbuf{}
	body.u8(status)
	body.raw(ver[:])
	body.s8(prog)
	body.raw(pver[:])
	w := &wbuf{}
	w.u8(tokLoginAck)
	w.u16(len(body.b))
	w.raw(body.b)
	return wPkg{Kind: "LOGINACK", Bytes: w.b, Pass: true}
}

// capability masks: map type (1 request, 2 response, 3 security) -> set of capability numbers
func capMask(caps []int) []byte {
	if len(caps) == 0 {
		return nil
	}
	mx := 0
	for _, c := range caps {
		if c > mx {
			mx = c
		}
	}
	n := mx/8 + 1
	m := make([]byte, n)
	for _, c := range caps {
		m[n-1-c/8] |= 1 << uint(c%8)
	}
	return m
}

func encCapability(order []int, masks map[int][]byte) wPkg {
	body := &wbuf{}
	for _, t := range order {
		m := masks[t]
		body.u8(t)
		body.u8(len(m))
		body.raw(m)
	}
	w := &wbuf{}
	w.u8(tokCapability)
	w.u16(len(body.b))
	w.raw(body.b)
	return wPkg{Kind: "CAPABILITY", Bytes: w.b, Pass: true}
}

func encOrderBy2(cols []int) wPkg {
	body := &wbuf{}
	body.u16(len(cols))
	for _, c := range cols {
		body.u16(c)
	}
	w := &wbuf{}
	w.u8(tokOrderBy2)
	w.u32(uint32(len(body.b)))
	w.raw(body.b)
	return wPkg{Kind: "ORDERBY2", Bytes: w.b, Pass: true}
}

func encOrderBy(cols []int) wPkg {
	w := &wbuf{}
	w.u8(tokOrderBy)
	w.u16(len(cols))
	for _, c := range cols {
		w.u8(c)
	}
	return wPkg{Kind: "ORDERBY", Bytes: w.b, Pass: true}
}

// data type tables (own transcription of the TDS type classes)
var fixedSize = map[byte]int{0x32: 1, 0x31: 4, 0x3D: 8, 0x3B: 4, 0x3E: 8, 0x30: 1, 0x34: 2, 0x38: 4, 0xBF: 8,
	0x3C: 8, 0x3A: 4, 0x7A: 4, 0x33: 4, 0x41: 2, 0x42: 4, 0x43: 8}
var len1Types = []byte{0x2D, 0x2F, 0x7B, 0x6F, 0x6D, 0x26, 0x6E, 0x93, 0x44, 0x25, 0x27}
var len1PrecScale = []byte{0x6A, 0x6C} // DECN NUMN
var len1Scale = []byte{0xBB, 0xBC}     // BIGDATETIMEN BIGTIMEN
var len4Types = []byte{0xE1, 0xAF}     // LONGBINARY LONGCHAR
var txtTypes = []byte{0x23, 0x22, 0xAE, 0xA3}

func isIn(s []byte, b byte) bool {
	for _, x := range s {
		if x == b {
			return true
		}
	}
	return false
}

type fmtOpts struct {
	wide     bool // ROWFMT2 / PARAMFMT2
	row      bool // ROWFMT family (ROWFMT2 has label/catalogue/schema/table)
	narrowL2 bool // length field is 2 bytes (PARAMFMT, and ROWFMT as TDS prescribes)
}

func randName(rng *rand.Rand, max int) string {
	n := rng.Intn(max + 1)
	b := make([]byte, n)
	for i := range b {
		b[i] = byte('a' + rng.Intn(26))
	}
	return string(b)
}

// encFmt encodes a ROWFMT/ROWFMT2/PARAMFMT/PARAMFMT2 package for the given columns.
func encFmt(rng *rand.Rand, tok int, cols []wCol, o fmtOpts) wPkg {
	body := &wbuf{}
	body.u16(len(cols))
	for _, c := range cols {
		if o.row && o.wide {
			body.s8(randName(rng, 4)) // label
			body.s8(randName(rng, 3)) // catalogue
			body.s8(randName(rng, 3)) // schema
			body.s8(randName(rng, 5)) // table
		}
		body.s8(randName(rng, 6))
		if o.wide {
			body.u32(c.status)
		} else {
			body.u8(int(c.status))
		}
		body.u32(uint32(rng.Intn(100))) // user type
		body.u8(int(c.dt))
		switch {
		case fixedSize[c.dt] > 0:
		case isIn(len1Types, c.dt):
			body.u8(255)
		case isIn(len1PrecScale, c.dt):
			body.u8(33)
			body.u8(int(c.prec))
			body.u8(int(c.scale))
		case isIn(len1Scale, c.dt):
			body.u8(8)
			body.u8(int(c.scale))
		case isIn(len4Types, c.dt):
			body.u32(0x7fffffff)
		case isIn(txtTypes, c.dt):
			body.u32(0x7fffffff)
			body.s16(randName(rng, 5))
		}
		body.s8(randName(rng, 2)) // locale
	}
	w := &wbuf{}
	w.u8(tok)
	if o.narrowL2 {
		w.u16(len(body.b))
	} else {
		w.u32(uint32(len(body.b)))
	}
	w.raw(body.b)
	kind := map[int]string{tokRowFmt: "ROWFMT", tokRowFmt2: "ROWFMT2", tokParamFmt: "PARAMFMT", tokParamFmt2: "PARAMFMT2"}[tok]
	return wPkg{Kind: kind, Bytes: w.b, Pass: true, Cols: cols}
}

func randBytes(rng *rand.Rand, n int) []byte {
	b := make([]byte, n)
	rng.Read(b)
	return b
}

func pick(rng *rand.Rand, xs ...int) int { return xs[rng.Intn(len(xs))] }

// encData encodes one ROW / PARAMS package for the columns of the preceding format package.
func encData(rng *rand.Rand, tok int, cols []wCol, maxVar int) wPkg {
	w := &wbuf{}
	w.u8(tok)
	for _, c := range cols {
		if c.status&0x08 != 0 {
			w.u8(pick(rng, 0, 0, 0, 1, 2))
		}
		switch {
		case fixedSize[c.dt] > 0:
			w.raw(randBytes(rng, fixedSize[c.dt]))
		case isIn(len1Types, c.dt) || isIn(len1PrecScale, c.dt) || isIn(len1Scale, c.dt):
			var n int
			switch c.dt {
			case 0x26, 0x44: // INTN UINTN
				n = pick(rng, 0, 1, 2, 4, 8)
			case 0x6D, 0x6E: // FLTN MONEYN
				n = pick(rng, 0, 4, 8)
			case 0x7B, 0x93: // DATEN TIMEN
				n = pick(rng, 0, 4)
			case 0x6F: // DATETIMEN
				n = pick(rng, 0, 4, 8)
			case 0xBB, 0xBC: // BIGDATETIMEN BIGTIMEN
				n = pick(rng, 0, 8)
			case 0x6A, 0x6C: // DECN NUMN: sign byte + magnitude
				n = pick(rng, 0, 2, 3, 5, 9, 17)
			default:
				n = rng.Intn(maxVar + 1)
				if n > 255 {
					n = 255
				}
			}
			w.u8(n)
			d := randBytes(rng, n)
			if (c.dt == 0x6A || c.dt == 0x6C) && n > 0 {
				d[0] = byte(rng.Intn(2))
			}
			w.raw(d)
		case isIn(len4Types, c.dt):
			n := rng.Intn(maxVar + 1)
			w.u32(uint32(n))
			w.raw(randBytes(rng, n))
		case isIn(txtTypes, c.dt):
			pl := pick(rng, 16, 16, 1, 4)
			w.u8(pl)
			w.raw(randBytes(rng, pl))
			w.raw(randBytes(rng, 8))
			n := rng.Intn(maxVar + 1)
			w.u32(uint32(n))
			w.raw(randBytes(rng, n))
		}
	}
	kind := "ROW"
	if tok == tokParams {
		kind = "PARAMS"
	}
	return wPkg{Kind: kind, Bytes: w.b, Pass: true}
}

var allColTypes = func() []byte {
	var t []byte
	for k := range fixedSize {
		t = append(t, k)
	}
	// deterministic order
	for i := 0; i < len(t); i++ {
		for j := i + 1; j < len(t); j++ {
			if t[j] < t[i] {
				t[i], t[j] = t[j], t[i]
			}
		}
	}
	t = append(t, len1Types...)
	t = append(t, len1PrecScale...)
	t = append(t, len1Scale...)
	t = append(t, len4Types...)
	t = append(t, txtTypes...)
	return t
}()

func randCols(rng *rand.Rand, n int, wide bool) []wCol {
	cols := make([]wCol, n)
	for i := range cols {
		c := wCol{dt: allColTypes[rng.Intn(len(allColTypes))]}
		if rng.Intn(3) == 0 {
			c.status |= 0x08 // column status
		}
		if rng.Intn(3) == 0 {
			c.status |= 0x20
		}
		if wide && rng.Intn(4) == 0 {
			c.status |= 0x10
		}
		c.prec = byte(1 + rng.Intn(38))
		c.scale = byte(rng.Intn(int(c.prec) + 1))
		cols[i] = c
	}
	return cols
}

// the messages / environment changes generated last: a server repeats itself (the same message twice in
// a row, in one response or in successive ones), and every occurrence counts
var (
	lastEEDs   [2]*wPkg
	lastEnvPkg *wPkg
)

func randEED(rng *rand.Rand, info bool) wPkg {
	status := 0
	slot := 0
	if info {
		status = 2
		slot = 1
	}
	if lastEEDs[slot] != nil && rng.Intn(4) == 0 {
		return *lastEEDs[slot]
	}
	p := randEED1(rng, status)
	lastEEDs[slot] = &p
	return p
}

func randEED1(rng *rand.Rand, status int) wPkg {
	if rng.Intn(3) == 0 {
		status |= 1
	}
	msg := randName(rng, 40)
	if rng.Intn(3) == 0 {
		msg += "\n"
	}
	// severities (class) and states at their boundaries: a message counts whatever its severity is
	class := []int{0, 1, 10, 11, 14, 16, 20, 255, rng.Intn(256)}[rng.Intn(9)]
	state := []int{0, 1, 127, 255, rng.Intn(256)}[rng.Intn(5)]
	return encEED(1+rng.Intn(30000), state, class, randName(rng, 5), status, rng.Intn(5), msg,
		randName(rng, 8), randName(rng, 8), rng.Intn(65536))
}

func randEnv(rng *rand.Rand, packSize int) wPkg {
	if packSize <= 0 {
		if lastEnvPkg != nil && rng.Intn(4) == 0 {
			return *lastEnvPkg
		}
		p := randEnv1(rng, packSize)
		lastEnvPkg = &p
		return p
	}
	return randEnv1(rng, packSize)
}

func randEnv1(rng *rand.Rand, packSize int) wPkg {
	n := rng.Intn(4)
	var ms [][3]string
	for i := 0; i < n; i++ {
		t := 1 + rng.Intn(3)
		ms = append(ms, [3]string{string([]byte{byte(t)}), randName(rng, 6), randName(rng, 6)})
	}
	if packSize > 0 {
		ms = append(ms, [3]string{"\x04", itoa(packSize), "512"})
	}
	return encEnv(ms)
}

func itoa(n int) string {
	if n == 0 {
		return "0"
	}
	var b []byte
	for n > 0 {
		b = append([]byte{byte('0' + n%10)}, b...)
		n /= 10
	}
	return string(b)
}
