package main

import (
	"reflect"
	"strings"
	"context"
	"encoding/binary"
	"encoding/hex"
	"fmt"
	"runtime"
	"time"

	"github.com/SAP/go-dblib/asetypes"
	"github.com/SAP/go-dblib/tds"
)

func ctxBG() context.Context { return context.Background() }
func ctxCancelled() (context.Context, context.CancelFunc) {
	c, cancel := context.WithCancel(context.Background())
	cancel()
	return c, cancel
}

type mutBatch struct {
	level, kind                       string
	n, ok, need, err, panics, hangs   int
	firstHang                         string
	disprop, declared                 int
	firstPanic, firstDisprop, firstKF string
	maxAlloc                          uint64
}

func (b *mutBatch) emit(tr *Tracer) {
	if b.n == 0 {
		return
	}
	tr.Emit(Ev{"ev": "Mut", "level": b.level, "kind": b.kind, "n": b.n, "ok": b.ok, "need": b.need, "err": b.err, "panic": b.panics, "hang": b.hangs, "firsthang": b.firstHang,
		"disprop": b.disprop, "declared": b.declared, "firstpanic": b.firstPanic, "firstdisprop": b.firstDisprop, "firstdeclared": b.firstKF,
		"maxalloc": int(b.maxAlloc)})
}

// largest little-endian 16/32-bit value at any offset of the input: an allocation no larger than
// (a small multiple of) it is "explained by a declared length".
func maxDeclared(in []byte) uint64 {
	var m uint64
	for i := 0; i+4 <= len(in); i++ {
		if v := uint64(binary.LittleEndian.Uint32(in[i:])); v > m {
			m = v
		}
	}
	for i := 0; i+2 <= len(in); i++ {
		if v := uint64(binary.LittleEndian.Uint16(in[i:])); v > m {
			m = v
		}
	}
	return m
}

var mutDeadline time.Time

func (b *mutBatch) run(in []byte, f func() string) {
	// enough evidence in this batch, or the run is out of time: stop executing inputs
	if b.panics+b.disprop+b.declared+b.hangs >= 3 || (!mutDeadline.IsZero() && time.Now().After(mutDeadline)) {
		return
	}
	var m0, m1 runtime.MemStats
	runtime.ReadMemStats(&m0)
	st := "panic"
	func() {
		defer func() {
			if recover() != nil {
				st = "panic"
			}
		}()
		st = f()
	}()
	runtime.ReadMemStats(&m1)
	alloc := m1.TotalAlloc - m0.TotalAlloc
	b.n++
	switch st {
	case "ok":
		b.ok++
	case "need":
		b.need++
	case "err":
		b.err++
	case "hang":
		// neither values nor an error: the call was still running when the watchdog fired
		b.hangs++
		if b.firstHang == "" {
			b.firstHang = hexHead(in)
		}
	default:
		b.panics++
		if b.firstPanic == "" {
			b.firstPanic = hex.EncodeToString(in)
			if len(b.firstPanic) > 200 {
				b.firstPanic = b.firstPanic[:200]
			}
		}
	}
	if alloc > b.maxAlloc {
		b.maxAlloc = alloc
	}
	// proportional: a*received + b
	if alloc > 64*uint64(len(in))+(2<<20) { // a*received + b; b covers 16-bit count fields (65535 elements)
		if alloc <= 3*maxDeclared(in)+(2<<20) {
			b.declared++
			if b.firstKF == "" {
				b.firstKF = fmt.Sprintf("alloc=%d input=%s", alloc, hexHead(in))
			}
		} else {
			b.disprop++
			if b.firstDisprop == "" {
				b.firstDisprop = fmt.Sprintf("alloc=%d input=%s", alloc, hexHead(in))
			}
		}
	}
}

func hexHead(in []byte) string {
	s := hex.EncodeToString(in)
	if len(s) > 120 {
		s = s[:120]
	}
	return s
}

var mutVals = []byte{0x00, 0x01, 0x7f, 0x80, 0xfe, 0xff}

// mutations of one valid encoding (bytes behind the token)
func mutations(rng interface{ Intn(int) int }, body []byte, f func(m []byte)) {
	n := len(body)
	lim := n
	if lim > 48 {
		lim = 48
	}
	for i := 0; i < lim; i++ { // every field of the first bytes (lengths, counts, types, status live here)
		for _, v := range mutVals {
			if body[i] == v {
				continue
			}
			m := append([]byte(nil), body...)
			m[i] = v
			f(m)
		}
		if i+2 <= n {
			for _, v := range []uint16{0xffff, 0x8000, uint16(n), uint16(n + 1), uint16(n - 1)} {
				m := append([]byte(nil), body...)
				binary.LittleEndian.PutUint16(m[i:], v)
				f(m)
			}
		}
		if i+4 <= n {
			// declared lengths up to 16 MiB: large enough to show an allocation of the declared size,
			// small enough that a library which does allocate it stays observable (no 4 GiB requests)
			for _, v := range []uint32{0x00ffffff, 0x00010000, 0x00000000, uint32(n)} {
				m := append([]byte(nil), body...)
				binary.LittleEndian.PutUint32(m[i:], v)
				f(m)
			}
		}
	}
	for k := 0; k < 12; k++ { // truncation and appended garbage
		c := rng.Intn(n + 1)
		f(append([]byte(nil), body[:c]...))
		g := make([]byte, 1+rng.Intn(40))
		for i := range g {
			g[i] = byte(rng.Intn(256))
		}
		f(append(append([]byte(nil), body...), g...))
	}
	for k := 0; k < 20; k++ { // arbitrary bytes after the token
		g := make([]byte, rng.Intn(64))
		for i := range g {
			g[i] = byte(rng.Intn(256))
		}
		f(g)
	}
}

func wireMutate(r *wireRun, rounds int) {
	r.tr.Reset(map[string]interface{}{"driver": "wire-mut"})
	mutDeadline = time.Now().Add(time.Duration(60*rounds) * time.Second)
	rowfmtTok := []int{tokRowFmt2, tokParamFmt, tokParamFmt2}
	for round := 0; round < rounds; round++ {
		// (a) package parsers on a bounded queue
		for _, k := range wkinds {
			f := k.random(r.rng, true)
			pkg, _ := tds.LookupPackage(tds.Token(k.token))
			setFields(pkg, k, f)
			var body []byte
			if k.noWrite {
				body = encDone(int(k.token), f["status"].(int), f["transtate"].(int), int32(f["count"].(int))).Bytes[1:]
			} else if wb, st := writeBytes(pkg); st == "ok" && len(wb) > 1 && wb[0] == k.token {
				body = wb[1:]
			} else {
				continue
			}
			b := &mutBatch{level: "package", kind: k.kind}
			mutations(r.rng, body, func(m []byte) {
				b.run(m, func() string {
					p, _ := tds.LookupPackage(tds.Token(k.token))
					st, _ := readPkg(p, m)
					if st == "ok" {
						_ = p.String()
						if cp, isCap := p.(*tds.CapabilityPackage); isCap {
							// what the client does with a received capability package: ask it
							for _, c := range []int{0, 1, 7, 8, 63, 64, 105, 106, 200} {
								_ = cp.HasRequestCapability(tds.RequestCapability(c))
								_ = cp.HasResponseCapability(tds.ResponseCapability(c))
								_ = cp.HasSecurityCapability(tds.SecurityCapability(c))
							}
						}
					}
					return st
				})
			})
			b.emit(r.tr)
		}
		// CAPABILITY (the server's answer in the login): mutated encodings and answers that lack blocks;
		// after an accepted parse the client asks the package for capabilities
		{
			bc := &mutBatch{level: "package", kind: "CAPABILITY"}
			askCaps := func(m []byte) string {
				p, _ := tds.LookupPackage(tds.TDS_CAPABILITY)
				st, _ := readPkg(p, m)
				if st == "ok" {
					_ = p.String()
					cp := p.(*tds.CapabilityPackage)
					for _, c := range []int{0, 1, 7, 8, 63, 64, 105, 106, 200} {
						_ = cp.HasRequestCapability(tds.RequestCapability(c))
						_ = cp.HasResponseCapability(tds.ResponseCapability(c))
						_ = cp.HasSecurityCapability(tds.SecurityCapability(c))
					}
				}
				return st
			}
			full := encCapability([]int{1, 2, 3}, map[int][]byte{1: capMask(peerReqCaps), 2: capMask(peerResCaps), 3: {1}}).Bytes[1:]
			mutations(r.rng, full, func(m []byte) { bc.run(m, func() string { return askCaps(m) }) })
			for _, blocks := range [][]int{{}, {1}, {2}, {3}, {1, 2}, {2, 3}, {9}, {1, 1}} {
				masks := map[int][]byte{1: capMask(peerReqCaps), 2: capMask(peerResCaps), 3: {1}, 9: {255}}
				m := encCapability(blocks, masks).Bytes[1:]
				bc.run(m, func() string { return askCaps(m) })
			}
			bc.emit(r.tr)
		}
		// format packages, and format packages followed by arbitrary / mutated data bytes
		for _, tok := range rowfmtTok {
			wide := tok != tokParamFmt
			row := tok == tokRowFmt2
			var cols []fcol
			for i := 0; i < 1+r.rng.Intn(4); i++ {
				c := randFcol(r.rng, wide, row)
				if !(row && wide) {
					c.Label, c.Catalogue, c.Schema, c.Table = []int{}, []int{}, []int{}, []int{}
				}
				cols = append(cols, c)
			}
			hb := encFcols(tok, cols, wide, row)
			b := &mutBatch{level: "package", kind: fmt.Sprintf("FMT%02x", tok)}
			mutations(r.rng, hb[1:], func(m []byte) {
				b.run(m, func() string {
					p, _ := tds.LookupPackage(tds.Token(tok))
					st, _ := readPkg(p, m)
					if st == "ok" {
						_ = p.String()
					}
					return st
				})
			})
			b.emit(r.tr)
			fp, _ := tds.LookupPackage(tds.Token(tok))
			if st, _ := readPkg(fp, hb[1:]); st != "ok" {
				continue
			}
			wcols := make([]wCol, len(cols))
			for i, c := range cols {
				wcols[i] = wCol{dt: byte(c.Dt), status: uint32(c.Status)}
			}
			dtok := tokParams
			if row {
				dtok = tokRow
			}
			data := encData(r.rng, dtok, wcols, 20).Bytes[1:]
			b2 := &mutBatch{level: "data", kind: fmt.Sprintf("DATA%02x", dtok)}
			mutations(r.rng, data, func(m []byte) {
				b2.run(m, func() string {
					p, _ := tds.LookupPackage(tds.Token(dtok))
					if err := p.(tds.LastPkgAcceptor).LastPkg(fp); err != nil {
						return "err"
					}
					st, _ := readPkg(p, m)
					if st == "ok" {
						_ = p.String()
					}
					return st
				})
			})
			b2.emit(r.tr)
			// a mutated format (precision, scale, lengths, data type ...) that still parses, followed by
			// data: the values are produced under the hostile format and must be printable
			b3 := &mutBatch{level: "data", kind: fmt.Sprintf("FMTDATA%02x", dtok)}
			tried := 0
			mutations(r.rng, hb[1:], func(m []byte) {
				if tried >= 400 {
					return
				}
				mfp, _ := tds.LookupPackage(tds.Token(tok))
				if st, _ := readPkg(mfp, m); st != "ok" {
					return
				}
				tried++
				b3.run(append(append([]byte(nil), m...), data...), func() string {
					p, _ := tds.LookupPackage(tds.Token(dtok))
					if err := p.(tds.LastPkgAcceptor).LastPkg(mfp); err != nil {
						return "err"
					}
					st, _ := readPkg(p, data)
					if st == "ok" {
						_ = p.String()
						if dfv := reflect.ValueOf(p).Elem().FieldByName("DataFields"); dfv.IsValid() {
							if dfs, ok := dfv.Interface().([]tds.FieldData); ok {
								for _, d := range dfs {
									_ = fmt.Sprint(d.Value())
									if sv, ok := d.Value().(fmt.Stringer); ok {
										_ = sv.String() // called directly: fmt hides a panicking String method
									}
								}
							}
						}
					}
					return st
				})
			})
			b3.emit(r.tr)
		}
		// DECN / NUMN columns whose format announces impossible precision / scale pairs, followed by values
		bd := &mutBatch{level: "data", kind: "DECFMT"}
		for _, ps := range [][2]int{{2, 10}, {0, 0}, {0, 5}, {38, 39}, {39, 0}, {77, 77}, {255, 255}, {1, 255}, {255, 0}, {10, 10}, {38, 38}} {
			for _, dt := range []int{0x6A, 0x6C} {
				for _, vlen := range []int{1, 2, 5, 17, 33} {
					c := fcol{Dt: dt, Name: []int{'d'}, Locale: []int{}, MaxLen: 33, Prec: ps[0], Scale: ps[1],
						Label: []int{}, Catalogue: []int{}, Schema: []int{}, Table: []int{}, TableName: []int{}}
					hb := encFcols(tokParamFmt, []fcol{c}, false, false)
					val := append([]byte{byte(vlen)}, randBytes(r.rng, vlen)...)
					val[1] &= 1 // sign byte
					bd.run(append(append([]byte(nil), hb...), val...), func() string {
						fp, _ := tds.LookupPackage(tds.TDS_PARAMFMT)
						if st, _ := readPkg(fp, hb[1:]); st != "ok" {
							return st
						}
						p, _ := tds.LookupPackage(tds.TDS_PARAMS)
						if err := p.(tds.LastPkgAcceptor).LastPkg(fp); err != nil {
							return "err"
						}
						st, _ := readPkg(p, val)
						if st == "ok" {
							_ = p.String()
							if dfv := reflect.ValueOf(p).Elem().FieldByName("DataFields"); dfv.IsValid() {
								if dfs, ok := dfv.Interface().([]tds.FieldData); ok {
									for _, d := range dfs {
										_ = fmt.Sprint(d.Value())
									if sv, ok := d.Value().(fmt.Stringer); ok {
										_ = sv.String() // called directly: fmt hides a panicking String method
									}
									}
								}
							}
						}
						return st
					})
				}
			}
		}
		bd.emit(r.tr)
		// BLOB columns (outside the C06 domain, but a parser a server can reach): a hand-built
		// ROWFMT2 with an INT4 and a BLOB column, and ROW data with chunked blob data
		for _, blobType := range []int{3, 4, 5, 1, 6} {
			col := func(dt int, trailer []byte) []byte {
				w := &wbuf{}
				w.s8("")
				w.s8("")
				w.s8("")
				w.s8("")
				w.s8("c")
				w.u32(0)
				w.u32(0)
				w.u8(dt)
				w.raw(trailer)
				w.s8("")
				return w.b
			}
			bt := &wbuf{}
			bt.u8(255)
			bt.u8(blobType)
			if blobType == 1 || blobType == 2 {
				bt.s16("cls")
			}
			cols := append(col(0x38, nil), col(0x24, bt.b)...)
			var fp tds.Package
			var body []byte
			for delta := 0; delta <= 3 && fp == nil; delta++ { // the library's own length bookkeeping for BLOB is off by a constant
				w := &wbuf{}
				w.u32(uint32(2 + len(cols) - delta))
				w.u16(2)
				w.raw(cols)
				p, _ := tds.LookupPackage(tds.TDS_ROWFMT2)
				if st, _ := readPkg(p, w.b); st == "ok" {
					fp, body = p, w.b
				}
			}
			if fp == nil {
				continue
			}
			bf := &mutBatch{level: "package", kind: fmt.Sprintf("FMTBLOB%d", blobType)}
			mutations(r.rng, body, func(m []byte) {
				bf.run(m, func() string {
					p, _ := tds.LookupPackage(tds.TDS_ROWFMT2)
					st, _ := readPkg(p, m)
					return st
				})
			})
			bf.emit(r.tr)
			d := &wbuf{}
			d.u32(7)  // INT4
			d.u8(0)   // serialization
			if blobType == 1 || blobType == 2 || blobType >= 6 {
				d.s16("sub")
			}
			d.u32(5)
			d.raw([]byte("hello"))
			d.u32(3)
			d.raw([]byte("abc"))
			d.u32(0x80000000)
			bd := &mutBatch{level: "data", kind: fmt.Sprintf("BLOBDATA%d", blobType)}
			mutations(r.rng, d.b, func(m []byte) {
				bd.run(m, func() string {
					p, _ := tds.LookupPackage(tds.TDS_ROW)
					if err := p.(tds.LastPkgAcceptor).LastPkg(fp); err != nil {
						return "err"
					}
					st, _ := readPkg(p, m)
					if st == "ok" {
						_ = p.String()
					}
					return st
				})
			})
			bd.emit(r.tr)
		}
		// ENVCHANGE / LOGINACK / CAPABILITY / ORDERBY2
		others := map[string][]byte{
			"ENVCHANGE":  encEnvChange([3]string{"\x01", "a", "b"}, [3]string{"\x04", "2048", "512"}),
			"LOGINACK":   encLoginAck(5, [4]byte{5, 0, 0, 0}, "ASE", [4]byte{1, 2, 3, 4}).Bytes,
			"CAPABILITY": encCapability([]int{1, 2}, map[int][]byte{1: capMask(peerReqCaps), 2: capMask(peerResCaps)}).Bytes,
			"ORDERBY2":   encOrderBy2([]int{1, 2, 3}).Bytes,
		}
		for kind, enc := range others {
			tok := enc[0]
			b := &mutBatch{level: "package", kind: kind}
			mutations(r.rng, enc[1:], func(m []byte) {
				b.run(m, func() string {
					p, _ := tds.LookupPackage(tds.Token(tok))
					if a, ok := p.(tds.LastPkgAcceptor); ok {
						rf, _ := tds.LookupPackage(tds.TDS_ROWFMT2)
						readPkg(rf, encFcols(tokRowFmt2, nil, true, true)[1:])
						a.LastPkg(rf)
					}
					st, _ := readPkg(p, m)
					if st == "ok" {
						_ = p.String()
					}
					return st
				})
			})
			b.emit(r.tr)
		}
	}
	// (b) value level: every data type with every data length 0..255
	for _, dt := range allColTypes {
		b := &mutBatch{level: "value", kind: fmt.Sprintf("dt%02x", dt)}
		for l := 0; l <= 255; l++ {
			bs := randBytes(r.rng, l)
			b.run(bs, func() string {
				v, err := asetypes.DataType(dt).GoValue(binary.LittleEndian, bs)
				if err != nil {
					return "err"
				}
				_ = fmt.Sprint(v)
				return "ok"
			})
		}
		b.emit(r.tr)
	}
	// (b1) data packages behind every possible predecessor: the server decides what precedes a ROW / PARAMS
	// (a format of the other family, a data package, a DONE, nothing at all)
	bl := &mutBatch{level: "channel", kind: "lastpkg"}
	{
		mkFmt := func(tok int, wide, row bool) tds.Package {
			cols := []fcol{{Dt: 0x38, Name: []int{'a'}, Locale: []int{}, MaxLen: 4, Label: []int{}, Catalogue: []int{}, Schema: []int{}, Table: []int{}, TableName: []int{}}}
			hb := encFcols(tok, cols, wide, row)
			p, _ := tds.LookupPackage(tds.Token(tok))
			if st, _ := readPkg(p, hb[1:]); st != "ok" {
				return nil
			}
			return p
		}
		preds := map[string]func() tds.Package{
			"nil":       func() tds.Package { return nil },
			"paramfmt":  func() tds.Package { return mkFmt(tokParamFmt, false, false) },
			"paramfmt2": func() tds.Package { return mkFmt(tokParamFmt2, true, false) },
			"rowfmt":    func() tds.Package { return mkFmt(tokRowFmt, false, true) },
			"rowfmt2":   func() tds.Package { return mkFmt(tokRowFmt2, true, true) },
			"done":      func() tds.Package { return &tds.DonePackage{} },
			"msg":       func() tds.Package { p, _ := tds.LookupPackage(tds.TDS_MSG); return p },
		}
		val := []byte{1, 0, 0, 0}
		for _, dtok := range []int{tokRow, tokParams} {
			for name, mk := range preds {
				for _, chain := range []int{0, 1, 2} { // the data package itself repeated behind the predecessor
					dtok, mk, chain := dtok, mk, chain
					bl.run([]byte(fmt.Sprintf("%x-%s-%d", dtok, name, chain)), func() string {
						var last tds.Package = mk()
						st := "err"
						for i := 0; i <= chain; i++ {
							p, _ := tds.LookupPackage(tds.Token(dtok))
							if err := p.(tds.LastPkgAcceptor).LastPkg(last); err != nil {
								return "err"
							}
							st, _ = readPkg(p, val)
							if st != "ok" {
								return st
							}
							_ = p.String()
							last = p
						}
						return st
					})
				}
			}
		}
	}
	bl.emit(r.tr)
	// (b2) an environment change with a hostile packet size, then the client sends: the value a server
	// announces must not make a later send panic or hang
	be := &mutBatch{level: "channel", kind: "packsize-then-send"}
	for _, v := range []string{"0", "1", "4", "7", "8", "9", "10", "255", "256", "65535", "65536", "70000", "4294967296", "-1", "-512",
		"99999999999999999999", "", " 512", "512x", "0x200", "5e2"} {
		v := v
		be.run([]byte(v), func() string {
			mc := newMemConn()
			conn, err := tds.NewConnWithTransport(context.Background(), mc, newInfo(), false)
			if err != nil {
				return "err"
			}
			ch, err := conn.NewChannel()
			if err != nil {
				return "err"
			}
			body := append(encEnvChange([3]string{"\x04", v, "512"}), encDone(tokDone, 0, 0, 0).Bytes...)
			done := make(chan string, 1)
			go func() {
				defer func() {
					if recover() != nil {
						done <- "panic"
					}
				}()
				pk := &tds.Packet{Data: body}
				pk.Header.MsgType = tds.TDS_BUF_RESPONSE
				pk.Header.Status = tds.TDS_BUFSTAT_EOM
				pk.Header.Length = uint16(8 + len(body))
				ch.WritePacket(pk)
				for {
					if _, err := ch.NextPackage(context.Background(), false); err != nil {
						break
					}
				}
				ctx, cancel := context.WithTimeout(context.Background(), 2*time.Second)
				defer cancel()
				if err := ch.SendPackage(ctx, &tds.LanguagePackage{Cmd: strings.Repeat("select 1 ", 40)}); err != nil {
					done <- "err"
					return
				}
				done <- "ok"
			}()
			select {
			case st := <-done:
				mc.Close()
				return st
			case <-time.After(4 * time.Second):
				mc.Close()
				return "hang"
			}
		})
	}
	be.emit(r.tr)
	// (c) packet level: all header values incl. length < 8, through the real reader and channel
	b := &mutBatch{level: "packet", kind: "header"}
	for i := 0; i < 40*rounds; i++ {
		hdr := make([]byte, 8)
		for j := range hdr {
			hdr[j] = byte(r.rng.Intn(256))
		}
		switch r.rng.Intn(4) {
		case 0:
			binary.BigEndian.PutUint16(hdr[2:4], uint16(r.rng.Intn(8))) // length < 8
		case 1:
			binary.BigEndian.PutUint16(hdr[2:4], uint16(8+r.rng.Intn(64)))
		}
		if r.rng.Intn(2) == 0 {
			hdr[4], hdr[5] = 0, 0 // channel 0 exists
		}
		garbage := randBytes(r.rng, r.rng.Intn(80))
		if i%8 == 3 {
			// a peer that keeps sending: more bytes follow than any 16-bit length can announce
			garbage = randBytes(r.rng, 66000+r.rng.Intn(3000))
		}
		stream := append(hdr, garbage...)
		b.run(stream, func() string {
			mc := newMemConn()
			mc.idleErr = fmt.Errorf("read: connection reset by peer")
			info := newInfo()
			info.PacketReadTimeout = 0
			conn, _ := tds.NewConnWithTransport(context.Background(), mc, info, false)
			ch, _ := conn.NewChannel()
			mc.Feed(stream)
			rctx, rcancel := context.WithCancel(context.Background())
			defer rcancel() // lets a reader that is still looping come to an end
			done := make(chan string, 1)
			go func() {
				defer func() {
					if recover() != nil {
						done <- "panic"
					}
				}()
				pk := &tds.Packet{}
				_, err := pk.ReadFrom(rctx, mc, 0)
				if err != nil {
					done <- "err"
					return
				}
				if int(pk.Header.Channel) == 0 {
					ch.WritePacket(pk)
					for {
						if _, err := ch.NextPackage(context.Background(), false); err != nil {
							break
						}
					}
				}
				done <- "ok"
			}()
			select {
			case st := <-done:
				return st
			case <-time.After(3 * time.Second):
				return "hang" // the dead peer fails every further read: nothing legitimate blocks here
			}
		})
	}
	b.emit(r.tr)
}
