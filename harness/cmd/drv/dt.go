package main

// Driver for C04 / C05: evaluates the data type codecs of the real library (asetypes.DataType.Bytes /
// GoValue, the data fields of tds PARAMS packages behind a server-announced format, the calendar
// helpers of asetime) on values drawn from each type's domain and records value, bytes and the value
// read back in canonical forms made with the standard library only (strconv, math/big, math.Float*bits,
// time.Time accessors, []rune).  It never judges: Trace_DataTypes.tla (DataTypes.tla) does.

import (
	"encoding/binary"
	"encoding/json"
	"flag"
	"fmt"
	"math"
	"math/big"
	"math/rand"
	"reflect"
	"strconv"
	"time"
	_ "time/tzdata"
	"unicode/utf16"

	"github.com/SAP/go-dblib/asetime"
	"github.com/SAP/go-dblib/asetypes"
	"github.com/SAP/go-dblib/tds"
)

func init() { families["dt"] = dtMain }

type dtRun struct {
	tr       *Tracer
	rng      *rand.Rand
	thorough bool
	inScn    int
	scnKey   string
	prevB    []byte // what Bytes returned for the value before (not copied) and what it contained then
	prevInts []int
	fixKey   string // one scenario group whatever the kind of event (everyDay)
}

var le = binary.LittleEndian

func dtDigits(s string) []int {
	d := make([]int, 0, len(s))
	for _, c := range s {
		if c >= '0' && c <= '9' {
			d = append(d, int(c-'0'))
		}
	}
	return d
}

func nibbles(s string) []int {
	d := make([]int, 0, len(s))
	for _, c := range s {
		v, _ := strconv.ParseUint(string(c), 16, 8)
		d = append(d, int(v))
	}
	return d
}

// civil: the date and time of day the value shows in its own location (what the library encodes)
func civil(t time.Time) map[string]interface{} {
	return map[string]interface{}{"k": "tm", "y": t.Year(), "mo": int(t.Month()), "d": t.Day(), "h": t.Hour(), "mi": t.Minute(), "s": t.Second(), "ns": t.Nanosecond()}
}

// canon: the canonical form of a Go value (uni: strings are given as code points)
func canon(v interface{}, uni bool) (out map[string]interface{}) {
	defer func() {
		if r := recover(); r != nil {
			out = map[string]interface{}{"k": "other", "s": fmt.Sprintf("panic in accessor: %v", r)}
		}
	}()
	if v == nil {
		return map[string]interface{}{"k": "null"}
	}
	gt := fmt.Sprintf("%T", v)
	switch x := v.(type) {
	case *asetypes.Decimal:
		if x == nil || x.String() == "<nil>" {
			return map[string]interface{}{"k": "null"}
		}
		i := x.Int()
		return map[string]interface{}{"k": "dec", "neg": i.Sign() < 0, "dig": dtDigits(new(big.Int).Abs(i).String()), "prec": x.Precision, "scale": x.Scale, "gt": gt}
	case bool:
		b := 0
		if x {
			b = 1
		}
		return map[string]interface{}{"k": "bit", "x": b, "gt": gt}
	case float32:
		return map[string]interface{}{"k": "hex", "nib": nibbles(fmt.Sprintf("%08x", math.Float32bits(x))), "gt": gt}
	case float64:
		return map[string]interface{}{"k": "hex", "nib": nibbles(fmt.Sprintf("%016x", math.Float64bits(x))), "gt": gt}
	case time.Time:
		m := civil(x)
		m["gt"] = gt
		return m
	case []byte:
		return map[string]interface{}{"k": "bytes", "x": ints(x), "gt": gt}
	case string:
		if uni {
			cps := []int{}
			for _, r := range []rune(x) {
				cps = append(cps, int(r))
			}
			return map[string]interface{}{"k": "cps", "x": cps, "gt": gt}
		}
		return map[string]interface{}{"k": "bytes", "x": ints([]byte(x)), "gt": gt}
	}
	rv := reflect.ValueOf(v)
	switch rv.Kind() {
	case reflect.Int8, reflect.Int16, reflect.Int32, reflect.Int64, reflect.Int:
		i := rv.Int()
		s := strconv.FormatInt(i, 10)
		return map[string]interface{}{"k": "int", "neg": i < 0, "dig": dtDigits(s), "gt": gt}
	case reflect.Uint8, reflect.Uint16, reflect.Uint32, reflect.Uint64, reflect.Uint:
		return map[string]interface{}{"k": "int", "neg": false, "dig": dtDigits(strconv.FormatUint(rv.Uint(), 10)), "gt": gt}
	}
	return map[string]interface{}{"k": "other", "s": gt}
}

func mustJSON(v interface{}) []byte {
	b, _ := json.Marshal(v)
	return b
}

func errText(err error) string {
	if err == nil {
		return ""
	}
	return "error: " + err.Error()
}

func (r *dtRun) scn(key string) {
	if r.fixKey != "" {
		key = r.fixKey
	}
	if key != r.scnKey || r.inScn >= 24 {
		r.tr.Reset(map[string]interface{}{"driver": "dt", "group": key})
		r.scnKey, r.inScn = key, 0
	}
	r.inScn++
}

func safeBytes(t asetypes.DataType, v interface{}, n int64) (b []byte, e string) {
	defer func() {
		if r := recover(); r != nil {
			b, e = nil, fmt.Sprintf("panic: %v", r)
		}
	}()
	b, err := t.Bytes(le, v, n)
	return b, errText(err)
}

func safeGoValue(t asetypes.DataType, b []byte) (v interface{}, e string) {
	defer func() {
		if r := recover(); r != nil {
			v, e = nil, fmt.Sprintf("panic: %v", r)
		}
	}()
	v, err := t.GoValue(le, b)
	return v, errText(err)
}

// rt: value -> Bytes -> GoValue
func (r *dtRun) rt(t asetypes.DataType, v interface{}, n int) {
	r.scn("rt-" + t.String())
	uni := t == asetypes.UNITEXT
	ev := Ev{"ev": "RT", "t": t.String(), "n": n, "v": canon(v, uni), "b": []int{}, "v2": map[string]interface{}{"k": "other", "s": "none"}, "err": "", "stable": true}
	b, e := safeBytes(t, v, int64(n))
	if e != "" {
		ev["err"] = "Bytes: " + e
		r.tr.Emit(ev)
		return
	}
	ev["b"] = ints(b)
	// encoding a value does not change it (the caller may use it again)
	if ja, _ := json.Marshal(canon(v, uni)); string(ja) != string(mustJSON(ev["v"])) {
		ev["err"] = "the value is another one after Bytes: " + string(ja)
	}
	// the bytes of the value encoded before this one are still what they were (a caller keeps them until
	// the whole package is written)
	ev["stable"] = true
	if r.prevB != nil && len(r.prevB) == len(r.prevInts) {
		for i := range r.prevB {
			if int(r.prevB[i]) != r.prevInts[i] {
				ev["stable"] = false
			}
		}
	}
	r.prevB, r.prevInts = b, ints(b)
	v2, e := safeGoValue(t, append([]byte(nil), b...))
	if e != "" {
		ev["err"] = "GoValue: " + e
	} else {
		ev["v2"] = canon(v2, uni)
	}
	r.tr.Emit(ev)
}

// xrt: written as the fixed-length type, read as its nullable variant
func (r *dtRun) xrt(t asetypes.DataType, v interface{}, n int) {
	nt, err := t.NullableType()
	if err != nil {
		return
	}
	r.scn("xrt-" + t.String())
	ev := Ev{"ev": "XRT", "t": t.String(), "nt": nt.String(), "v": canon(v, false), "b": []int{}, "v2": map[string]interface{}{"k": "other", "s": "none"}, "err": ""}
	b, e := safeBytes(t, v, int64(n))
	if e != "" {
		ev["err"] = "Bytes: " + e
		r.tr.Emit(ev)
		return
	}
	ev["b"] = ints(b)
	v2, e := safeGoValue(nt, append([]byte(nil), b...))
	if e != "" {
		ev["err"] = "GoValue: " + e
	} else {
		ev["v2"] = canon(v2, false)
	}
	r.tr.Emit(ev)
}

// dec: harness-made bytes (what a server sends) -> GoValue
func (r *dtRun) dec(t asetypes.DataType, b []byte) {
	r.scn("dec-" + t.String())
	v, e := safeGoValue(t, append([]byte(nil), b...))
	ev := Ev{"ev": "Dec", "t": t.String(), "b": ints(b), "v": map[string]interface{}{"k": "other", "s": "none"}, "err": e}
	if e == "" {
		ev["v"] = canon(v, t == asetypes.UNITEXT)
	}
	r.tr.Emit(ev)
}

var dtLenBytes = map[asetypes.DataType]int{}

// encParamFmt1: a PARAMFMT package announcing one column (what a server sends as the answer to a prepare)
func encParamFmt1(t asetypes.DataType, maxLen, prec, scale int) []byte {
	body := &wbuf{}
	body.u16(1)
	body.u8(0)  // name
	body.u8(0)  // status
	body.u32(0) // user type
	body.u8(int(t))
	switch {
	case t.ByteSize() != -1:
	case t == asetypes.DECN || t == asetypes.NUMN:
		body.u8(maxLen)
		body.u8(prec)
		body.u8(scale)
	case t == asetypes.BIGDATETIMEN || t == asetypes.BIGTIMEN:
		body.u8(maxLen)
		body.u8(6)
	case t.LengthBytes() == 4:
		body.u32(uint32(maxLen))
	default:
		body.u8(maxLen)
	}
	body.u8(0) // locale
	w := &wbuf{}
	w.u8(tokParamFmt)
	w.u16(len(body.b))
	w.raw(body.b)
	return w.b
}

// pkg: the value behind its format in a PARAMFMT / PARAMS pair
func (r *dtRun) pkg(t asetypes.DataType, v interface{}, maxLen, prec, scale int) {
	// the same value in a pair built by the client itself, where the type's default format can hold it
	// (a client cannot give a DECN / NUMN format its precision and scale, nor MONEYN / DATETIMEN the short width)
	if t != asetypes.DECN && t != asetypes.NUMN && !((t == asetypes.MONEYN || t == asetypes.DATETIMEN) && maxLen == 4) {
		r.cpkg(t, v)
	}
	r.scn("pkg-" + t.String())
	uni := t == asetypes.UNITEXT
	ev := Ev{"ev": "Pkg", "t": t.String(), "n": maxLen, "prec": prec, "scale": scale, "v": canon(v, uni), "w": "none", "pb": []int{}, "r": "none",
		"v2": map[string]interface{}{"k": "other", "s": "none"}}
	defer func() { r.tr.Emit(ev) }()
	hb := encParamFmt1(t, maxLen, prec, scale)
	fpkg, _ := tds.LookupPackage(tds.TDS_PARAMFMT)
	if st, _ := readPkg(fpkg, hb[1:]); st != "ok" {
		ev["w"] = "format-" + st
		return
	}
	fmts := fpkg.(*tds.ParamFmtPackage).Fmts
	if len(fmts) != 1 {
		ev["w"] = "format-count"
		return
	}
	fd, err := tds.LookupFieldData(fmts[0])
	if err != nil {
		ev["w"] = "fielddata-err"
		return
	}
	fd.SetValue(v)
	ppkg := tds.NewParamsPackage(fd)
	if err := ppkg.LastPkg(fpkg); err != nil {
		ev["w"] = "lastpkg-err"
		return
	}
	pb, pst := writeBytes(ppkg)
	ev["w"] = pst
	if pst != "ok" {
		return
	}
	ev["pb"] = ints(pb)
	rp, _ := tds.LookupPackage(tds.TDS_PARAMS)
	if err := rp.(tds.LastPkgAcceptor).LastPkg(fpkg); err != nil {
		ev["r"] = "lastpkg-err"
		return
	}
	st, _ := readPkg(rp, pb[1:])
	ev["r"] = st
	if st == "ok" {
		dfs := rp.(*tds.ParamsPackage).DataFields
		if len(dfs) == 1 {
			ev["v2"] = canon(dfs[0].Value(), uni)
		}
	}
}

// cpkg: the value in a PARAMFMT / PARAMS pair built by the client itself (LookupFieldFmtData), both
// packages written by the library and read back by it
func (r *dtRun) cpkg(t asetypes.DataType, v interface{}) {
	r.scn("cpkg-" + t.String())
	uni := t == asetypes.UNITEXT
	ev := Ev{"ev": "Pkg", "client": true, "t": t.String(), "n": 0, "prec": 0, "scale": 0, "v": canon(v, uni), "w": "none", "pb": []int{}, "r": "none",
		"v2": map[string]interface{}{"k": "other", "s": "none"}}
	defer func() { r.tr.Emit(ev) }()
	ff, fd, err := tds.LookupFieldFmtData(t)
	if err != nil {
		ev["w"] = "lookup-err"
		return
	}
	if d, ok := v.(*asetypes.Decimal); ok && d != nil {
		ev["prec"], ev["scale"] = d.Precision, d.Scale
	}
	fd.SetValue(v)
	fpkg := tds.NewParamFmtPackage(false, ff)
	fb, fst := writeBytes(fpkg)
	if fst != "ok" || len(fb) < 2 {
		ev["w"] = "format-" + fst
		return
	}
	ppkg := tds.NewParamsPackage(fd)
	if err := ppkg.LastPkg(fpkg); err != nil {
		ev["w"] = "lastpkg-err"
		return
	}
	pb, pst := writeBytes(ppkg)
	ev["w"] = pst
	if pst != "ok" {
		return
	}
	ev["pb"] = ints(pb)
	back, _ := tds.LookupPackage(tds.TDS_PARAMFMT)
	if st, _ := readPkg(back, fb[1:]); st != "ok" {
		ev["r"] = "format-" + st
		return
	}
	if fs := back.(*tds.ParamFmtPackage).Fmts; len(fs) == 1 {
		ev["n"] = int(fs[0].MaxLength())
	}
	rp, _ := tds.LookupPackage(tds.TDS_PARAMS)
	if err := rp.(tds.LastPkgAcceptor).LastPkg(back); err != nil {
		ev["r"] = "lastpkg-err"
		return
	}
	st, _ := readPkg(rp, pb[1:])
	ev["r"] = st
	if st == "ok" {
		if dfs := rp.(*tds.ParamsPackage).DataFields; len(dfs) == 1 {
			ev["v2"] = canon(dfs[0].Value(), uni)
		}
	}
}

// rows: several values of one column travelling one after the other behind one format - a ROWFMT2 with
// ROW packages, or a PARAMFMT with PARAMS packages - chained the way the channel chains them (every
// data package gets its predecessor as the last package); the values are looked at when all have been read
func (r *dtRun) rows(t asetypes.DataType, vs []interface{}, maxLen, prec, scale int, asRow bool) {
	r.scn("rows-" + t.String())
	uni := t == asetypes.UNITEXT
	cvs := []map[string]interface{}{}
	for _, v := range vs {
		cvs = append(cvs, canon(v, uni))
	}
	ev := Ev{"ev": "Rows", "t": t.String(), "row": asRow, "vs": cvs, "v2s": []map[string]interface{}{}, "r": "none"}
	defer func() { r.tr.Emit(ev) }()
	col := fcol{Dt: int(t), MaxLen: maxLen, Prec: prec, Scale: scale, Name: []int{}, Locale: []int{}, Label: []int{}, Catalogue: []int{}, Schema: []int{}, Table: []int{}, TableName: []int{}}
	ftok, dtok := tokParamFmt, tokParams
	fT, dT := tds.TDS_PARAMFMT, tds.TDS_PARAMS
	if asRow {
		ftok, dtok = tokRowFmt2, tokRow
		fT, dT = tds.TDS_ROWFMT2, tds.TDS_ROW
	}
	hb := encFcols(ftok, []fcol{col}, asRow, asRow)
	fpkg, _ := tds.LookupPackage(fT)
	if st, _ := readPkg(fpkg, hb[1:]); st != "ok" {
		ev["r"] = "format-" + st
		return
	}
	var prev tds.Package = fpkg
	var pkgs []tds.Package
	for _, v := range vs {
		data, e := safeBytes(t, v, int64(maxLen))
		if e != "" {
			ev["r"] = "bytes-err"
			return
		}
		w := &wbuf{}
		w.u8(dtok)
		switch t.LengthBytes() {
		case 1:
			w.u8(len(data))
		case 4:
			w.u32(uint32(len(data)))
		}
		w.raw(data)
		dp, _ := tds.LookupPackage(dT)
		if err := dp.(tds.LastPkgAcceptor).LastPkg(prev); err != nil {
			ev["r"] = "lastpkg-err"
			return
		}
		if st, _ := readPkg(dp, w.b[1:]); st != "ok" {
			ev["r"] = "data-" + st
			return
		}
		pkgs = append(pkgs, dp)
		prev = dp
	}
	out := []map[string]interface{}{}
	for _, dp := range pkgs {
		var dfs []tds.FieldData
		switch p := dp.(type) {
		case *tds.ParamsPackage:
			dfs = p.DataFields
		case *tds.RowPackage:
			dfs = p.DataFields
		}
		if len(dfs) != 1 {
			ev["r"] = "fields"
			return
		}
		out = append(out, canon(dfs[0].Value(), uni))
	}
	ev["v2s"], ev["r"] = out, "ok"
}

// nullBack: what GoValue returns for a value of length zero goes back into Bytes
func (r *dtRun) nullBack(t asetypes.DataType) {
	r.scn("nullback")
	v, e := safeGoValue(t, []byte{})
	ev := Ev{"ev": "NullBack", "t": t.String(), "b": []int{}, "err": e}
	if e == "" {
		b, e2 := safeBytes(t, v, 8)
		ev["err"], ev["b"] = e2, ints(b)
	}
	r.tr.Emit(ev)
}

func (r *dtRun) cal(fn string, v map[string]interface{}, b []byte, e string) {
	r.scn("cal-" + fn)
	r.tr.Emit(Ev{"ev": "Cal", "fn": fn, "v": v, "b": ints(b), "err": e})
}

func (r *dtRun) calDay(t time.Time) {
	func() {
		defer func() {
			if x := recover(); x != nil {
				r.cal("T2U", civil(t), nil, fmt.Sprintf("panic: %v", x))
			}
		}()
		us := asetime.TimeToMicroseconds(t)
		r.cal("T2U", civil(t), le.AppendUint64(nil, us), "")
		back := asetime.MicrosecondsToTime(us)
		r.cal("U2T", civil(back), le.AppendUint64(nil, us), "")
		d := asetime.DurationFromDateTime(t)
		r.cal("DFDT", civil(t), le.AppendUint64(nil, uint64(int64(d))), "")
		r.cal("DFT", civil(t), le.AppendUint64(nil, uint64(int64(asetime.DurationFromTime(t)))), "")
	}()
}

// ---- value generators ----

func (r *dtRun) pickInt64() int64 {
	b := []int64{0, 1, -1, 127, 128, -128, -129, 255, 256, 32767, 32768, -32768, -32769, 65535, 65536, math.MaxInt32, math.MaxInt32 + 1, math.MinInt32, math.MinInt32 - 1,
		math.MaxUint32, math.MaxUint32 + 1, math.MaxInt64, math.MinInt64, math.MaxInt64 - 1, math.MinInt64 + 1, 1 << 32, -(1 << 32), 1<<40 + 5, -(1<<40 + 5)}
	if r.rng.Intn(3) == 0 {
		return b[r.rng.Intn(len(b))]
	}
	// random width
	w := uint(1 + r.rng.Intn(64))
	v := int64(r.rng.Uint64() >> (64 - w))
	if r.rng.Intn(2) == 0 {
		v = -v
	}
	return v
}

func (r *dtRun) dayRange(lo, hi time.Time) time.Time {
	days := int(hi.Sub(lo).Hours()/24) + 1
	return lo.AddDate(0, 0, r.rng.Intn(days))
}

func date(y, m, d int) time.Time { return time.Date(y, time.Month(m), d, 0, 0, 0, 0, time.UTC) }

// times of day in nanoseconds: boundaries and random, on and off the 1/300 s grid
func (r *dtRun) tod(res string) time.Duration {
	day := 24 * time.Hour
	switch res {
	case "us":
		b := []time.Duration{0, time.Microsecond, 999999 * time.Microsecond, time.Second, day - time.Microsecond, 12 * time.Hour, day - time.Second, 3333 * time.Microsecond}
		if r.rng.Intn(3) == 0 {
			return b[r.rng.Intn(len(b))]
		}
		return time.Duration(r.rng.Int63n(int64(day/time.Microsecond))) * time.Microsecond
	case "tick":
		switch r.rng.Intn(4) {
		case 0: // exactly on a tick that is a whole number of milliseconds (every third tick)
			return time.Duration(r.rng.Int63n(8640000)) * 10 * time.Millisecond
		case 1: // the millisecond values a server shows: .000 .003 .006 (truncated ticks)
			n := r.rng.Int63n(25920000)
			return time.Duration(n*10/3) * time.Millisecond
		case 2:
			b := []time.Duration{0, time.Millisecond, 2 * time.Millisecond, 3 * time.Millisecond, 4 * time.Millisecond, day - time.Millisecond, day - 2*time.Millisecond, day - 3*time.Millisecond, day - 4*time.Millisecond,
				day - time.Second, 12 * time.Hour, time.Second, 1666 * time.Microsecond, 1667 * time.Microsecond}
			return b[r.rng.Intn(len(b))]
		}
		return time.Duration(r.rng.Int63n(int64(day/time.Millisecond))) * time.Millisecond
	case "min":
		switch r.rng.Intn(3) {
		case 0:
			return time.Duration(r.rng.Intn(1440)) * time.Minute
		case 1:
			b := []time.Duration{0, time.Second, 29 * time.Second, 30 * time.Second, 59 * time.Second, day - time.Second, day - time.Minute, day - 31*time.Second}
			return b[r.rng.Intn(len(b))]
		}
		return time.Duration(r.rng.Intn(86400)) * time.Second
	}
	return 0
}

var dayWindows = [][2]time.Time{
	{date(1, 1, 1), date(1, 3, 5)}, {date(4, 2, 25), date(4, 3, 3)}, {date(99, 12, 25), date(101, 3, 3)}, {date(399, 12, 25), date(401, 3, 3)},
	{date(1582, 10, 1), date(1582, 10, 20)}, {date(1599, 12, 25), date(1600, 3, 3)}, {date(1699, 12, 25), date(1700, 3, 3)},
	{date(1752, 12, 25), date(1753, 1, 5)}, {date(1899, 12, 20), date(1900, 3, 5)}, {date(1969, 12, 25), date(1970, 1, 5)},
	{date(1999, 12, 25), date(2000, 3, 3)}, {date(2079, 6, 1), date(2079, 6, 10)}, {date(2099, 12, 25), date(2100, 3, 3)},
	{date(9999, 12, 1), date(9999, 12, 31)},
}

func (r *dtRun) someDay(lo, hi time.Time) time.Time {
	if r.rng.Intn(2) == 0 {
		for i := 0; i < 20; i++ {
			w := dayWindows[r.rng.Intn(len(dayWindows))]
			d := r.dayRange(w[0], w[1])
			if !d.Before(lo) && !d.After(hi) {
				return d
			}
		}
	}
	return r.dayRange(lo, hi)
}

var dtSpecialRunes = []rune{0x61, 0xff, 0x100, 0xd7ff, 0xe000, 0xfffd, 0xffff, 0x10000, 0x10ffff, 0x20ac, 0x1f600, 0xfeff, 0xfffe, ' ', 0xa0, 0x3000, '\n', 0x2028}

func (r *dtRun) randRunes(n int) string {
	rs := make([]rune, n)
	for i := range rs {
		switch r.rng.Intn(6) {
		case 0:
			rs[i] = rune(1 + r.rng.Intn(0x7f))
		case 1:
			rs[i] = rune(0x80 + r.rng.Intn(0x80))
		case 2:
			rs[i] = rune(0x100 + r.rng.Intn(0xD700))
		case 3:
			rs[i] = rune(0xE000 + r.rng.Intn(0x2000))
		case 4:
			rs[i] = rune(0x10000 + r.rng.Intn(0x100000))
		default:
			rs[i] = dtSpecialRunes[r.rng.Intn(len(dtSpecialRunes))]
		}
	}
	// byte order marks, blanks and line ends at either end are characters like any other
	if r.rng.Intn(4) == 0 {
		rs[0] = dtSpecialRunes[r.rng.Intn(len(dtSpecialRunes))]
	}
	if r.rng.Intn(4) == 0 {
		rs[n-1] = []rune{' ', '\n', 0xfeff, 0xfffe, 0x3000, 0xa0, 'x'}[r.rng.Intn(7)]
	}
	return string(rs)
}

// runesIn: n characters drawn from lo..hi (surrogates left out); the last one is not NUL
func (r *dtRun) runesIn(n, lo, hi int) string {
	rs := make([]rune, n)
	for i := range rs {
		c := lo + r.rng.Intn(hi-lo+1)
		if c >= 0xd800 && c <= 0xdfff {
			c = 0xe000
		}
		rs[i] = rune(c)
	}
	return string(rs)
}

func (r *dtRun) randDigits(n int) string {
	b := make([]byte, n)
	for i := range b {
		b[i] = byte('0' + r.rng.Intn(10))
	}
	if n > 0 && r.rng.Intn(4) == 0 {
		for i := range b {
			b[i] = '9'
		}
	}
	return string(b)
}

func mkMoney(prec, scale int, x int64) *asetypes.Decimal {
	d, err := asetypes.NewDecimal(prec, scale)
	if err != nil {
		return nil
	}
	d.SetInt64(x)
	return d
}

func (r *dtRun) mkDecimal(prec, scale int) *asetypes.Decimal {
	nd := 1 + r.rng.Intn(prec)
	if r.rng.Intn(3) == 0 {
		nd = prec
	}
	digs := r.randDigits(nd)
	// place the point: the text carries `scale` fraction digits
	for len(digs) <= scale {
		digs = "0" + digs
	}
	s := digs[:len(digs)-scale]
	if scale > 0 {
		s += "." + digs[len(digs)-scale:]
	}
	if r.rng.Intn(2) == 0 {
		s = "-" + s
	}
	d, err := asetypes.NewDecimalString(prec, scale, s)
	if err != nil {
		return nil
	}
	return d
}

func (r *dtRun) count(quick, thorough int) int {
	if r.thorough {
		return thorough
	}
	return quick
}

func (r *dtRun) all() {
	T := asetypes.INT1
	_ = T
	// --- integers ---
	for i := 0; i < 256; i++ {
		r.rt(asetypes.INT1, uint8(i), 1)
	}
	if r.thorough {
		for i := math.MinInt16; i <= math.MaxInt16; i++ {
			r.rt(asetypes.INT2, int16(i), 2)
		}
		for i := 0; i <= math.MaxUint16; i++ {
			r.rt(asetypes.UINT2, uint16(i), 2)
		}
	}
	for i := 0; i < r.count(120, 3000); i++ {
		x := r.pickInt64()
		r.rt(asetypes.INT2, int16(x), 2)
		r.rt(asetypes.INT4, int32(x), 4)
		r.rt(asetypes.INT8, x, 8)
		r.rt(asetypes.UINT2, uint16(x), 2)
		r.rt(asetypes.UINT4, uint32(x), 4)
		r.rt(asetypes.UINT8, uint64(x), 8)
		r.rt(asetypes.INTN, x, 8)
		r.rt(asetypes.UINTN, uint64(x), 8)
		r.xrt(asetypes.INT1, uint8(x), 1)
		r.xrt(asetypes.INT2, int16(x), 2)
		r.xrt(asetypes.INT4, int32(x), 4)
		r.xrt(asetypes.INT8, x, 8)
		r.xrt(asetypes.UINT2, uint16(x), 2)
		r.xrt(asetypes.UINT4, uint32(x), 4)
		r.xrt(asetypes.UINT8, uint64(x), 8)
		switch i % 4 {
		case 0:
			r.pkg(asetypes.INT4, int32(x), 4, 0, 0)
			r.pkg(asetypes.INTN, x, 8, 0, 0)
		case 1:
			r.pkg(asetypes.INT8, x, 8, 0, 0)
			r.pkg(asetypes.UINTN, uint64(x), 8, 0, 0)
		case 2:
			r.pkg(asetypes.INT2, int16(x), 2, 0, 0)
			r.pkg(asetypes.UINT4, uint32(x), 4, 0, 0)
			r.pkg(asetypes.INT1, uint8(x), 1, 0, 0)
		case 3:
			r.pkg(asetypes.UINT8, uint64(x), 8, 0, 0)
			r.pkg(asetypes.UINT2, uint16(x), 2, 0, 0)
		}
		// a server's bytes
		b := le.AppendUint64(nil, uint64(x))
		for _, w := range []int{1, 2, 4, 8} {
			r.dec(asetypes.INTN, b[:w])
			r.dec(asetypes.UINTN, b[:w])
		}
		r.dec(asetypes.INT4, b[:4])
		r.dec(asetypes.INT8, b)
		r.dec(asetypes.UINT8, b)
		r.dec(asetypes.INT2, b[:2])
	}
	for i := 0; i < r.count(12, 200); i++ {
		k := 2 + r.rng.Intn(3)
		var a, c, d, e []interface{}
		for j := 0; j < k; j++ {
			x := r.pickInt64()
			a = append(a, int32(x))
			c = append(c, x)
			d = append(d, string(toBytes(randText(r.rng, 1+r.rng.Intn(20)))))
			e = append(e, r.dayRange(date(1, 1, 1), date(9999, 12, 31)).Add(r.tod("us")))
		}
		asRow := i%2 == 0
		r.rows(asetypes.INT4, a, 4, 0, 0, asRow)
		r.rows(asetypes.INTN, c, 8, 0, 0, asRow)
		r.rows(asetypes.VARCHAR, d, 255, 0, 0, asRow)
		r.rows(asetypes.BIGDATETIMEN, e, 8, 0, 0, asRow)
		var f []interface{}
		for j := 0; j < k; j++ {
			if dd := r.mkDecimal(12, 3); dd != nil {
				f = append(f, dd)
			}
		}
		r.rows(asetypes.NUMN, f, 33, 12, 3, asRow)
	}
	// --- bit ---
	for _, v := range []bool{false, true} {
		r.rt(asetypes.BIT, v, 1)
		r.pkg(asetypes.BIT, v, 1, 0, 0)
	}
	r.dec(asetypes.BIT, []byte{0})
	r.dec(asetypes.BIT, []byte{1})
	// --- floats: bit patterns ---
	for i := 0; i < r.count(150, 4000); i++ {
		var b64 uint64
		switch i % 5 {
		case 0:
			b64 = []uint64{0, 1 << 63, 0x7ff0000000000000, 0xfff0000000000000, 0x7ff8000000000001, 0x7ff0000000000001, 0xfff8000000000000, 1, 0x000fffffffffffff, 0x0010000000000000,
				0x7fefffffffffffff, 0x3ff0000000000000, 0xbff0000000000000, 0x400921fb54442d18}[r.rng.Intn(14)]
		default:
			b64 = r.rng.Uint64()
		}
		f := math.Float64frombits(b64)
		r.rt(asetypes.FLT8, f, 8)
		r.rt(asetypes.FLTN, f, 8)
		b32 := uint32(b64 >> 32)
		if i%5 == 0 {
			b32 = []uint32{0, 1 << 31, 0x7f800000, 0xff800000, 0x7fc00001, 0x7f800001, 1, 0x007fffff, 0x00800000, 0x7f7fffff, 0x3f800000}[r.rng.Intn(11)]
		}
		g := math.Float32frombits(b32)
		r.rt(asetypes.FLT4, g, 4)
		r.xrt(asetypes.FLT4, g, 4)
		r.xrt(asetypes.FLT8, f, 8)
		if i%3 == 0 {
			r.pkg(asetypes.FLT8, f, 8, 0, 0)
			r.pkg(asetypes.FLT4, g, 4, 0, 0)
			r.pkg(asetypes.FLTN, f, 8, 0, 0)
		}
		r.dec(asetypes.FLT8, le.AppendUint64(nil, b64))
		r.dec(asetypes.FLT4, le.AppendUint32(nil, b32))
		r.dec(asetypes.FLTN, le.AppendUint64(nil, b64))
		r.dec(asetypes.FLTN, le.AppendUint32(nil, b32))
	}
	// every boundary pattern, and NaNs of both kinds (quiet bit clear / set) with random payloads
	for _, b32 := range []uint32{0, 1 << 31, 0x7f800000, 0xff800000, 0x7fc00000, 0x7fc00001, 0x7f800001, 0x7fa00000, 0xffa00000, 0x7fbfffff, 0xffc00000, 1, 0x007fffff, 0x00800000, 0x7f7fffff, 0x3f800000} {
		g := math.Float32frombits(b32)
		r.rt(asetypes.FLT4, g, 4)
		r.xrt(asetypes.FLT4, g, 4)
		r.pkg(asetypes.FLT4, g, 4, 0, 0)
		r.dec(asetypes.FLT4, le.AppendUint32(nil, b32))
		r.dec(asetypes.FLTN, le.AppendUint32(nil, b32))
	}
	for _, b64 := range []uint64{0, 1 << 63, 0x7ff0000000000000, 0xfff0000000000000, 0x7ff8000000000000, 0x7ff8000000000001, 0x7ff0000000000001, 0x7ff4000000000000, 0xfff4000000000000, 0x7ff7ffffffffffff,
		1, 0x000fffffffffffff, 0x0010000000000000, 0x7fefffffffffffff, 0x3ff0000000000000} {
		f := math.Float64frombits(b64)
		r.rt(asetypes.FLT8, f, 8)
		r.rt(asetypes.FLTN, f, 8)
		r.xrt(asetypes.FLT8, f, 8)
		r.pkg(asetypes.FLT8, f, 8, 0, 0)
		r.pkg(asetypes.FLTN, f, 8, 0, 0)
		r.dec(asetypes.FLT8, le.AppendUint64(nil, b64))
	}
	for i := 0; i < r.count(20, 400); i++ {
		b32 := 0x7f800000 | uint32(r.rng.Intn(2))<<31 | (1 + uint32(r.rng.Intn(0x7fffff)))
		b64 := 0x7ff0000000000000 | uint64(r.rng.Intn(2))<<63 | (1 + uint64(r.rng.Int63n(0xfffffffffffff)))
		r.rt(asetypes.FLT4, math.Float32frombits(b32), 4)
		r.rt(asetypes.FLT8, math.Float64frombits(b64), 8)
		r.pkg(asetypes.FLT4, math.Float32frombits(b32), 4, 0, 0)
		r.dec(asetypes.FLT4, le.AppendUint32(nil, b32))
	}
	// --- money ---
	for i := 0; i < r.count(150, 4000); i++ {
		x := r.pickInt64()
		r.rt(asetypes.MONEY, mkMoney(asetypes.ASEMoneyPrecision, asetypes.ASEMoneyScale, x), 8)
		r.rt(asetypes.MONEYN, mkMoney(asetypes.ASEMoneyPrecision, asetypes.ASEMoneyScale, x), 8)
		r.rt(asetypes.SHORTMONEY, mkMoney(asetypes.ASEShortMoneyPrecision, asetypes.ASEShortMoneyScale, int64(int32(x))), 4)
		r.rt(asetypes.MONEYN, mkMoney(asetypes.ASEShortMoneyPrecision, asetypes.ASEShortMoneyScale, int64(int32(x))), 4)
		r.xrt(asetypes.MONEY, mkMoney(asetypes.ASEMoneyPrecision, asetypes.ASEMoneyScale, x), 8)
		r.xrt(asetypes.SHORTMONEY, mkMoney(asetypes.ASEShortMoneyPrecision, asetypes.ASEShortMoneyScale, int64(int32(x))), 4)
		if i%3 == 0 {
			r.pkg(asetypes.MONEY, mkMoney(asetypes.ASEMoneyPrecision, asetypes.ASEMoneyScale, x), 8, 0, 0)
			r.pkg(asetypes.MONEYN, mkMoney(asetypes.ASEMoneyPrecision, asetypes.ASEMoneyScale, x), 8, 0, 0)
			r.pkg(asetypes.SHORTMONEY, mkMoney(asetypes.ASEShortMoneyPrecision, asetypes.ASEShortMoneyScale, int64(int32(x))), 4, 0, 0)
			r.pkg(asetypes.MONEYN, mkMoney(asetypes.ASEShortMoneyPrecision, asetypes.ASEShortMoneyScale, int64(int32(x))), 4, 0, 0)
		}
		// a server's bytes: high word first
		hb := le.AppendUint32(nil, uint32(uint64(x)>>32))
		hb = le.AppendUint32(hb, uint32(uint64(x)))
		r.dec(asetypes.MONEY, hb)
		r.dec(asetypes.MONEYN, hb)
		r.dec(asetypes.SHORTMONEY, le.AppendUint32(nil, uint32(x)))
		r.dec(asetypes.MONEYN, le.AppendUint32(nil, uint32(x)))
	}
	// --- decimal / numeric: every precision 1..38, scale 0..precision ---
	for prec := 1; prec <= 38; prec++ {
		for scale := 0; scale <= prec; scale++ {
			reps := r.count(1, 6)
			// every pair at the corners of the domain (scale 0, scale = precision, precision 38), a third of the rest
			corner := scale == 0 || scale == prec || prec == 38 || prec == 1
			if !r.thorough && !corner && (prec*39+scale)%3 != int(r.rng.Int31n(3)) {
				continue
			}
			for k := 0; k < reps; k++ {
				d := r.mkDecimal(prec, scale)
				if d == nil {
					// a decimal of a valid precision / scale that cannot even be made is a value that does not survive
					r.scn("rt-DECN")
					r.tr.Emit(Ev{"ev": "RT", "t": "DECN", "n": 33, "v": map[string]interface{}{"k": "dec", "neg": false, "dig": []int{}, "prec": prec, "scale": scale, "gt": "*asetypes.Decimal"},
						"b": []int{}, "v2": map[string]interface{}{"k": "other", "s": "none"}, "err": fmt.Sprintf("NewDecimalString(%d, %d) failed", prec, scale), "stable": true})
					continue
				}
				t := []asetypes.DataType{asetypes.DECN, asetypes.NUMN}[r.rng.Intn(2)]
				r.rt(t, d, 33)
				d2 := r.mkDecimal(prec, scale)
				if d2 != nil {
					r.pkg(t, d2, 33, prec, scale)
				}
				// a server's bytes: sign, big-endian magnitude padded to the column's size
				mag := new(big.Int)
				mag.SetString(r.randDigits(1+r.rng.Intn(prec)), 10)
				mb := mag.Bytes()
				pad := r.rng.Intn(3)
				b := append([]byte{byte(r.rng.Intn(2))}, make([]byte, pad)...)
				b = append(b, mb...)
				if mag.Sign() == 0 {
					b[0] = 0
				}
				r.dec(t, b)
			}
		}
	}
	// zero and single digits
	for _, s := range []string{"0", "1", "-1", "9", "255", "256", "-256", "65535", "65536"} {
		if d, err := asetypes.NewDecimalString(10, 0, s); err == nil {
			r.rt(asetypes.DECN, d, 33)
			r.pkg(asetypes.NUMN, d, 33, 10, 0)
		}
	}
	// --- temporal ---
	min1, max9999 := date(1, 1, 1), date(9999, 12, 31)
	sdtLo, sdtHi := date(1900, 1, 1), date(2079, 6, 6)
	for i := 0; i < r.count(300, 8000); i++ {
		d := r.someDay(min1, max9999)
		r.rt(asetypes.DATE, d, 4)
		r.rt(asetypes.DATEN, d.Add(r.tod("us")), 4)
		dt := d.Add(r.tod("tick"))
		r.rt(asetypes.DATETIME, dt, 8)
		r.rt(asetypes.DATETIMEN, d.Add(r.tod("tick")), 8)
		bd := d.Add(r.tod("us"))
		r.rt(asetypes.BIGDATETIMEN, bd, 8)
		tm := date(1, 1, 1).Add(r.tod("tick"))
		r.rt(asetypes.TIME, tm, 4)
		r.rt(asetypes.TIMEN, date(2021, 6, 7).Add(r.tod("tick")), 4)
		r.rt(asetypes.BIGTIMEN, date(1, 1, 1).Add(r.tod("us")), 8)
		sd := r.someDay(sdtLo, sdtHi).Add(r.tod("min"))
		r.rt(asetypes.SHORTDATE, sd, 4)
		r.xrt(asetypes.SHORTDATE, sd, 4)
		r.xrt(asetypes.DATETIME, dt, 8)
		r.xrt(asetypes.DATE, d, 4)
		r.xrt(asetypes.TIME, tm, 4)
		r.rt(asetypes.DATETIMEN, r.someDay(sdtLo, sdtHi).Add(r.tod("min")), 4)
		if i%3 == 0 {
			r.pkg(asetypes.DATE, d, 4, 0, 0)
			r.pkg(asetypes.DATEN, d, 4, 0, 0)
			r.pkg(asetypes.DATETIME, dt, 8, 0, 0)
			r.pkg(asetypes.DATETIMEN, dt, 8, 0, 0)
			r.pkg(asetypes.DATETIMEN, sd, 4, 0, 0)
			r.pkg(asetypes.SHORTDATE, sd, 4, 0, 0)
			r.pkg(asetypes.TIME, tm, 4, 0, 0)
			r.pkg(asetypes.TIMEN, tm, 4, 0, 0)
			r.pkg(asetypes.BIGDATETIMEN, bd, 8, 0, 0)
			r.pkg(asetypes.BIGTIMEN, date(1, 1, 1).Add(r.tod("us")), 8, 0, 0)
		}
		// a server's bytes
		days := int32(d.Sub(date(1900, 1, 1)).Hours() / 24)
		ticks := uint32(r.rng.Intn(25920000))
		if r.rng.Intn(4) == 0 {
			ticks = []uint32{0, 1, 2, 3, 299, 300, 25919999, 25919998, 25919700}[r.rng.Intn(9)]
		}
		db := le.AppendUint32(nil, uint32(days))
		r.dec(asetypes.DATE, db)
		r.dec(asetypes.DATEN, db)
		r.dec(asetypes.DATETIME, le.AppendUint32(append([]byte(nil), db...), ticks))
		r.dec(asetypes.DATETIMEN, le.AppendUint32(append([]byte(nil), db...), ticks))
		r.dec(asetypes.TIME, le.AppendUint32(nil, ticks))
		r.dec(asetypes.TIMEN, le.AppendUint32(nil, ticks))
		sdays := uint16(r.rng.Intn(65536))
		if r.rng.Intn(4) == 0 {
			sdays = []uint16{0, 1, 65535, 65534, 36524, 36525, 59, 60}[r.rng.Intn(8)]
		}
		mins := uint16(r.rng.Intn(1440))
		sb := le.AppendUint16(le.AppendUint16(nil, sdays), mins)
		r.dec(asetypes.SHORTDATE, sb)
		r.dec(asetypes.DATETIMEN, sb)
		// microseconds since 0000-01-01 for a day of years 1..9999
		dayNo := uint64(d.Sub(date(1, 1, 1)).Hours()/24) + 366
		us := uint64(r.rng.Int63n(86400000000))
		if r.rng.Intn(4) == 0 {
			us = []uint64{0, 1, 999999, 1000000, 86399999999, 86399000000, 43200000000}[r.rng.Intn(7)]
		}
		r.dec(asetypes.BIGDATETIMEN, le.AppendUint64(nil, dayNo*86400000000+us))
		r.dec(asetypes.BIGTIMEN, le.AppendUint64(nil, us))
	}
	// values that are not in UTC: the library encodes the date and time of day the value shows in its own
	// location - also on the days on which that location's clock is changed
	zones := []*time.Location{time.FixedZone("east", 5*3600+1800), time.FixedZone("west", -11*3600)}
	for _, name := range []string{"Europe/Berlin", "America/New_York", "Australia/Lord_Howe", "Asia/Kolkata"} {
		if loc, err := time.LoadLocation(name); err == nil {
			zones = append(zones, loc)
		}
	}
	changeDays := [][3]int{{2024, 3, 31}, {2024, 10, 27}, {2024, 3, 10}, {2024, 11, 3}, {2024, 4, 7}, {2024, 10, 6}, {1999, 12, 31}, {2000, 2, 29}, {1899, 12, 31}}
	for i := 0; i < r.count(40, 600); i++ {
		loc := zones[r.rng.Intn(len(zones))]
		cd := changeDays[r.rng.Intn(len(changeDays))]
		us := r.tod("us")
		if r.rng.Intn(2) == 0 {
			us = time.Duration(r.rng.Intn(24))*time.Hour + time.Duration(r.rng.Intn(4))*15*time.Minute
		}
		h, mi, sec, ns := int(us/time.Hour), int(us/time.Minute)%60, int(us/time.Second)%60, int(us%time.Second)
		t := time.Date(cd[0], time.Month(cd[1]), cd[2], h, mi, sec, ns, loc)
		if t.Hour() != h || t.Minute() != mi {
			continue // a time of day that does not exist on that day in that location
		}
		r.rt(asetypes.BIGDATETIMEN, t, 8)
		r.rt(asetypes.BIGTIMEN, t, 8)
		r.rt(asetypes.DATE, t, 4)
		tt := time.Date(cd[0], time.Month(cd[1]), cd[2], h, mi, sec, (ns/10000000)*10000000, loc)
		r.rt(asetypes.DATETIME, tt, 8)
		r.rt(asetypes.TIME, tt, 4)
		r.pkg(asetypes.BIGDATETIMEN, t, 8, 0, 0)
		r.calDay(t)
	}
	// --- binary and character data ---
	for i := 0; i < r.count(60, 1500); i++ {
		n := []int{1, 2, 3, 7, 8, 9, 127, 128, 254, 255}[r.rng.Intn(10)]
		if r.rng.Intn(2) == 0 {
			n = 1 + r.rng.Intn(255)
		}
		bs := randBytes(r.rng, n)
		switch r.rng.Intn(4) { // values that end in (or consist of) blanks and NUL bytes are values like any other
		case 0:
			bs[len(bs)-1] = ' '
		case 1:
			bs[len(bs)-1] = 0
		case 2:
			bs[0] = ' '
		}
		str := string(bs)
		if r.rng.Intn(2) == 0 {
			str = r.randRunes(1 + r.rng.Intn(60))
			if len(str) > 255 {
				str = str[:0] + "x"
			}
		}
		long := randBytes(r.rng, 1+r.rng.Intn(3000))
		if r.rng.Intn(3) == 0 {
			long[len(long)-1] = []byte{0, ' '}[r.rng.Intn(2)]
		}
		r.rt(asetypes.BINARY, bs, 255)
		r.rt(asetypes.VARBINARY, bs, 255)
		r.rt(asetypes.LONGBINARY, long, 0x7fffffff)
		r.rt(asetypes.IMAGE, long, 0x7fffffff)
		r.rt(asetypes.CHAR, str, 255)
		r.rt(asetypes.VARCHAR, str, 255)
		r.rt(asetypes.LONGCHAR, r.randRunes(1+r.rng.Intn(400)), 0x7fffffff)
		r.rt(asetypes.TEXT, r.randRunes(1+r.rng.Intn(400)), 0x7fffffff)
		u := r.randRunes(1 + r.rng.Intn(40))
		switch i % 5 { // texts drawn from one range only: ASCII, Latin-1 (every unit has a zero high byte), BMP, outside the BMP
		case 1:
			u = r.runesIn(1+r.rng.Intn(30), 0x20, 0x7e)
		case 2:
			u = r.runesIn(1+r.rng.Intn(30), 0x20, 0xff)
		case 3:
			u = r.runesIn(1+r.rng.Intn(12), 0x80, 0xff)
		case 4:
			u = r.runesIn(1+r.rng.Intn(12), 0x10000, 0x10ffff)
		}
		r.rt(asetypes.UNITEXT, u, 0x7fffffff)
		if i%3 == 0 {
			r.pkg(asetypes.BINARY, bs, 255, 0, 0)
			r.pkg(asetypes.VARBINARY, bs, 255, 0, 0)
			r.pkg(asetypes.LONGBINARY, long, 0x7fffffff, 0, 0)
			r.pkg(asetypes.CHAR, str, 255, 0, 0)
			r.pkg(asetypes.VARCHAR, str, 255, 0, 0)
			r.pkg(asetypes.LONGCHAR, r.randRunes(1+r.rng.Intn(400)), 0x7fffffff, 0, 0)
		}
		// a server's bytes
		r.dec(asetypes.BINARY, bs)
		r.dec(asetypes.VARBINARY, bs)
		r.dec(asetypes.LONGBINARY, long)
		r.dec(asetypes.IMAGE, long)
		r.dec(asetypes.XML, long)
		r.dec(asetypes.CHAR, []byte(str))
		r.dec(asetypes.VARCHAR, []byte(str))
		r.dec(asetypes.LONGCHAR, []byte(str))
		r.dec(asetypes.TEXT, []byte(str))
		us := r.randRunes(1 + r.rng.Intn(40))
		switch i % 4 {
		case 1:
			us = r.runesIn(1+r.rng.Intn(30), 0x20, 0xff)
		case 2:
			us = r.runesIn(1+r.rng.Intn(12), 0x80, 0xff)
		}
		u16 := utf16.Encode([]rune(us))
		ub := make([]byte, 0, 2*len(u16))
		for _, c := range u16 {
			ub = le.AppendUint16(ub, c)
		}
		r.dec(asetypes.UNITEXT, ub)
	}
	// texts whose first or last character a reader might be tempted to tidy away: byte order marks, blanks, line ends
	for _, u := range []string{"\ufeffabc", "\ufeff", "a\ufeff", "\ufffeabc", "\ufeff\ufeff", " x", "x ", "\nx", "x\n", "\u3000x\u3000", "\u00a0", "\ufeff\U0001F600"} {
		r.rt(asetypes.UNITEXT, u, 0x7fffffff)
		u16 := utf16.Encode([]rune(u))
		ub := make([]byte, 0, 2*len(u16))
		for _, c := range u16 {
			ub = le.AppendUint16(ub, c)
		}
		r.dec(asetypes.UNITEXT, ub)
		for _, t := range []asetypes.DataType{asetypes.CHAR, asetypes.VARCHAR, asetypes.LONGCHAR, asetypes.TEXT} {
			r.rt(t, u, 255)
			r.dec(t, []byte(u))
		}
		r.pkg(asetypes.VARCHAR, u, 255, 0, 0)
		r.pkg(asetypes.CHAR, u, 255, 0, 0)
	}
	// --- NULL: zero length both ways, for every nullable type ---
	for _, t := range []asetypes.DataType{asetypes.INTN, asetypes.UINTN, asetypes.FLTN, asetypes.MONEYN, asetypes.DECN, asetypes.NUMN, asetypes.DATEN, asetypes.TIMEN, asetypes.DATETIMEN,
		asetypes.BIGDATETIMEN, asetypes.BIGTIMEN, asetypes.BINARY, asetypes.VARBINARY, asetypes.LONGBINARY, asetypes.CHAR, asetypes.VARCHAR, asetypes.LONGCHAR, asetypes.TEXT, asetypes.IMAGE, asetypes.UNITEXT} {
		r.rt(t, nil, 8)
		r.dec(t, []byte{})
		r.nullBack(t)
		if t != asetypes.TEXT && t != asetypes.IMAGE && t != asetypes.UNITEXT {
			r.pkg(t, nil, 8, 10, 2)
		}
	}
	// --- the calendar helpers ---
	if r.thorough {
		for d := min1; !d.After(max9999); d = d.AddDate(0, 0, 1) {
			if d.Day() == 1 || d.Day() >= 28 || r.rng.Intn(6) == 0 {
				r.calDay(d.Add(r.tod("us")))
			}
		}
	} else {
		for _, w := range dayWindows {
			for d := w[0]; !d.After(w[1]); d = d.AddDate(0, 0, 1) {
				r.calDay(d.Add(r.tod("us")))
			}
		}
		for i := 0; i < 400; i++ {
			r.calDay(r.dayRange(min1, max9999).Add(r.tod("us")))
		}
	}
	// --- the tables ---
	for i := 0; i < 256; i++ {
		t := asetypes.DataType(i)
		r.scn("tab")
		nts := ""
		if nt, err := t.NullableType(); err == nil {
			nts = nt.String()
		}
		r.tr.Emit(Ev{"ev": "Tab", "t": t.String(), "size": t.ByteSize(), "lb": t.LengthBytes(), "nt": nts})
	}
}

// everyDay: every day of the years 1..9999 through the calendar helpers and the DATE codec
func (r *dtRun) everyDay(part, parts int) {
	r.fixKey = "every-day"
	i := 0
	for d := date(1, 1, 1); !d.After(date(9999, 12, 31)); d = d.AddDate(0, 0, 1) {
		i++
		if i%parts != part {
			continue
		}
		r.calDay(d.Add(r.tod("us")))
		r.rt(asetypes.DATE, d, 4)
	}
}

// everyTick: the ticks of a day (every stride-th one and both ends) as a server's TIME and DATETIME value,
// decoded, and the decoded time encoded again
func (r *dtRun) everyTick(part, parts, stride int) {
	r.fixKey = "every-tick"
	i := 0
	for n := 0; n < 25920000; n++ {
		if n%stride != 0 && n > 1000 && n < 25920000-1000 {
			continue
		}
		i++
		if i%parts != part {
			continue
		}
		b := le.AppendUint32(nil, uint32(n))
		r.dec(asetypes.TIME, b)
		if v, e := safeGoValue(asetypes.TIME, b); e == "" {
			r.rt(asetypes.TIME, v, 4)
		}
		if i%16 == 0 {
			db := le.AppendUint32(le.AppendUint32(nil, uint32(int32(r.rng.Intn(3652059)-693595))), uint32(n))
			r.dec(asetypes.DATETIME, db)
		}
	}
}

func dtMain(args []string) error {
	fs := flag.NewFlagSet("dt", flag.ExitOnError)
	out := fs.String("out", "dt.ndjson", "trace file")
	seed := fs.Int64("seed", 1, "random seed")
	thorough := fs.Bool("thorough", false, "thorough tier")
	every := fs.String("everyday", "", "part/parts: every day of the years 1..9999 (calendar helpers, DATE)")
	everyTick := fs.String("everytick", "", "part/parts/stride: the ticks of a day (TIME, DATETIME)")
	fs.Parse(args)
	tr, err := NewTracer(*out)
	if err != nil {
		return err
	}
	r := &dtRun{tr: tr, rng: rand.New(rand.NewSource(*seed)), thorough: *thorough}
	if *everyTick != "" {
		var part, parts, stride int
		fmt.Sscanf(*everyTick, "%d/%d/%d", &part, &parts, &stride)
		r.everyTick(part, parts, stride)
	} else if *every != "" {
		var part, parts int
		fmt.Sscanf(*every, "%d/%d", &part, &parts)
		r.everyDay(part, parts)
	} else {
		r.all()
	}
	return tr.Close()
}
