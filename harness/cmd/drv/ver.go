package main

// Driver for tds.Version (spec growth, no listed property): Compare, String, Bytes, NewVersion,
// NewVersionString on boundary and random components and on malformed texts.

import (
	"flag"
	"math/rand"
	"strconv"
	"strings"

	"github.com/SAP/go-dblib/tds"
)

func init() { families["ver"] = verMain }

func verOf(c [4]int) *tds.Version {
	v, err := tds.NewVersion([]byte{byte(c[0]), byte(c[1]), byte(c[2]), byte(c[3])})
	if err != nil {
		panic(err)
	}
	return v
}

func verMain(args []string) error {
	fs := flag.NewFlagSet("ver", flag.ExitOnError)
	out := fs.String("out", "ver.ndjson", "trace file")
	seed := fs.Int64("seed", 1, "seed")
	count := fs.Int("count", 400, "random cases per kind")
	fs.Parse(args)
	tr, err := NewTracer(*out)
	if err != nil {
		return err
	}
	rng := rand.New(rand.NewSource(*seed))
	comp := func() int { return []int{0, 1, 2, 9, 10, 99, 100, 127, 128, 254, 255, rng.Intn(256)}[rng.Intn(12)] }
	rv := func() [4]int { return [4]int{comp(), comp(), comp(), comp()} }
	n := 0
	scn := func() {
		if n%50 == 0 {
			tr.Reset(map[string]interface{}{"driver": "ver"})
		}
		n++
	}
	for i := 0; i < *count; i++ {
		a, b := rv(), rv()
		if rng.Intn(3) == 0 { // equal up to a position
			b = a
			b[rng.Intn(4)] = comp()
		}
		scn()
		tr.Emit(Ev{"ev": "Cmp", "a": a[:], "b": b[:], "out": verOf(a).Compare(*verOf(b))})
		// String, parsed back, and Bytes
		scn()
		v := verOf(a)
		ev := Ev{"ev": "RT", "a": a[:], "st": "err", "out": []int{}, "bytes": ints(v.Bytes())}
		if w, err := tds.NewVersionString(v.String()); err == nil {
			ev["st"], ev["out"] = "ok", ints(w.Bytes())
		}
		tr.Emit(ev)
	}
	// texts: parts that are integers in and out of range, negative, not integers; wrong numbers of parts
	part := func() string {
		switch rng.Intn(8) {
		case 0:
			return strconv.Itoa(256 + rng.Intn(1000))
		case 1:
			return strconv.Itoa(-rng.Intn(600))
		case 2:
			return []string{"", "x", "1a", " 1", "1 ", "+", "0x10", "1e2"}[rng.Intn(8)]
		case 3:
			return []string{"+5", "007", "00", "-0", "255", "256", "-1", "-256", "-257"}[rng.Intn(9)]
		}
		return strconv.Itoa(comp())
	}
	for i := 0; i < *count; i++ {
		k := 4
		if rng.Intn(5) == 0 {
			k = []int{0, 1, 2, 3, 5, 6}[rng.Intn(6)]
		}
		texts := make([]string, k)
		for j := range texts {
			texts[j] = part()
			// a part must not contain a point itself
			texts[j] = strings.ReplaceAll(texts[j], ".", "")
		}
		s := strings.Join(texts, ".")
		// what the text's parts are (strings.Split of the empty text gives one empty part)
		parts := []map[string]interface{}{}
		for _, t := range strings.Split(s, ".") {
			v, err := strconv.Atoi(t)
			parts = append(parts, map[string]interface{}{"ok": err == nil, "val": v})
		}
		scn()
		ev := Ev{"ev": "Parse", "text": s, "parts": parts, "st": "err", "out": []int{}}
		func() {
			defer func() {
				if recover() != nil {
					ev["st"] = "panic"
				}
			}()
			if w, err := tds.NewVersionString(s); err == nil {
				ev["st"], ev["out"] = "ok", ints(w.Bytes())
			}
		}()
		tr.Emit(ev)
	}
	for k := 0; k <= 8; k++ {
		bs := randBytes(rng, k)
		scn()
		ev := Ev{"ev": "New", "n": k, "bs": ints(bs), "st": "err", "out": []int{}}
		if v, err := tds.NewVersion(bs); err == nil {
			ev["st"], ev["out"] = "ok", ints(v.Bytes())
		}
		tr.Emit(ev)
	}
	return tr.Close()
}
