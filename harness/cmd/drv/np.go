package main

import (
	"crypto/sha1"
	"encoding/hex"
	"strings"
	"flag"
	"fmt"
	"math/rand"
	"runtime"
	"sync"
	"sync/atomic"
	"time"

	"github.com/SAP/go-dblib/namepool"
)

func init() { families["np"] = npMain }

func npMain(args []string) error {
	fs := flag.NewFlagSet("np", flag.ExitOnError)
	out := fs.String("out", "np.ndjson", "trace file")
	seed := fs.Int64("seed", 1, "seed")
	rounds := fs.Int("rounds", 6, "scenarios")
	iters := fs.Int("iters", 150, "acquire/release iterations per goroutine")
	stressMs := fs.Int("stressms", 700, "duration of each untraced stress run (ms)")
	fs.Parse(args)
	tr, err := NewTracer(*out)
	if err != nil {
		return err
	}
	rng := rand.New(rand.NewSource(*seed))
	formats := []string{"name%d", "stmt_%d_x", "%d", "fixed", "%s", "%d-%d", "%08d",
		// the pool's format is a fmt format: escaped percent signs, flags and further verbs around the %d
		"tmp%%_%d", "%d%%", "%%d", "%d %s", "%+d|%x", "%5d.",
		// formats longer than any identifier limit: the text is still the format applied to the id
		strings.Repeat("p", 254) + "%d", strings.Repeat("q", 300) + "_%d_" + strings.Repeat("r", 40)}
	// long texts are logged as a digest (equal digests <=> equal texts)
	short := func(t string) string {
		if len(t) <= 64 {
			return t
		}
		h := sha1.Sum([]byte(t))
		return "sha1:" + hex.EncodeToString(h[:])
	}
	var reused, acquired int64
	for sc := 0; sc < *rounds; sc++ {
		n := []int{1, 2, 3, 8, 16, 64}[rng.Intn(6)]
		if sc == 0 {
			n = 64
		}
		format := formats[rng.Intn(len(formats))]
		if sc == 2 || sc == 3 {
			format = formats[7+rng.Intn(6)]
		}
		if sc == 1 {
			format = formats[13+rng.Intn(2)]
		}
		procs := []int{1, 2, 4, 16}[rng.Intn(4)]
		old := runtime.GOMAXPROCS(procs)
		tr.Reset(map[string]interface{}{"driver": "np", "goroutines": n, "format": format, "gomaxprocs": procs})
		pool := namepool.Pool(format)
		var wg sync.WaitGroup
		var seen sync.Map
		for g := 0; g < n; g++ {
			wg.Add(1)
			grng := rand.New(rand.NewSource(*seed*1000 + int64(sc*100+g)))
			go func(g int) {
				defer wg.Done()
				defer func() {
					if p := recover(); p != nil {
						// e.g. a name cleared under its holder: the specification has no action for this
						tr.Emit(Ev{"ev": "Panic", "g": g, "text": fmt.Sprint(p)})
					}
				}()
				for i := 0; i < *iters; i++ {
					var names []*namepool.Name
					k := 1 + grng.Intn(3)
					for j := 0; j < k; j++ {
						nm := pool.Acquire()
						id, text := nm.ID(), nm.Name()
						tr.Emit(Ev{"ev": "AcqEnd", "g": g, "id": int(id), "text": short(text),
							"textok": text == fmt.Sprintf(format, id) && nm.String() == text})
						if _, dup := seen.LoadOrStore(id, true); dup {
							atomic.AddInt64(&reused, 1)
						}
						atomic.AddInt64(&acquired, 1)
						names = append(names, nm)
					}
					if grng.Intn(4) == 0 {
						runtime.Gosched()
					}
					if grng.Intn(40) == 0 {
						runtime.GC() // empties sync.Pool (victim cache after two cycles)
					}
					for _, nm := range names {
						id, text := nm.ID(), nm.Name()
						tr.Emit(Ev{"ev": "RelStart", "g": g, "id": int(id), "text": short(text)})
						pan := false
						func() {
							defer func() {
								if recover() != nil {
									pan = true
								}
							}()
							if grng.Intn(2) == 0 {
								nm.Release()
							} else {
								pool.Release(nm)
							}
						}()
						tr.Emit(Ev{"ev": "RelEnd", "g": g, "cleared": nm.Name() == "", "panic": pan})
						if grng.Intn(3) == 0 { // double release by the owner, and release of nil
							pan2 := false
							func() {
								defer func() {
									if recover() != nil {
										pan2 = true
									}
								}()
								pool.Release(nm)
								nm.Release()
								pool.Release(nil)
								var none *namepool.Name
								none.Release() // releasing nil, the other way
							}()
							tr.Emit(Ev{"ev": "Rel2", "g": g, "panic": pan2})
						}
					}
				}
			}(g)
		}
		wg.Wait()
		runtime.GOMAXPROCS(old)
	}
	// stress: the same in tight loops without a trace line per call (writing the trace serialises the goroutines
	// and hides interleavings that need two calls inside the pool at the same moment); the harness keeps the set
	// of held ids itself and only counts: an id handed out while its holder has not released it
	for _, procs := range []int{2, 4, 16} {
		old := runtime.GOMAXPROCS(procs)
		pool := namepool.Pool("s%d")
		var held sync.Map
		var dups, ops int64
		var wg sync.WaitGroup
		deadline := time.Now().Add(time.Duration(*stressMs) * time.Millisecond)
		for g := 0; g < 4*procs; g++ {
			wg.Add(1)
			go func(g int) {
				defer wg.Done()
				defer func() { recover() }()
				var mine []*namepool.Name
				for i := 0; time.Now().Before(deadline); i++ {
					nm := pool.Acquire()
					if _, loaded := held.LoadOrStore(nm.ID(), g); loaded {
						atomic.AddInt64(&dups, 1)
					}
					atomic.AddInt64(&ops, 1)
					mine = append(mine, nm)
					if len(mine) > 1+(i+g)%3 {
						for _, m := range mine {
							held.Delete(m.ID())
							m.Release()
						}
						mine = mine[:0]
					}
				}
			}(g)
		}
		wg.Wait()
		runtime.GOMAXPROCS(old)
		tr.Reset(map[string]interface{}{"driver": "np-stress", "gomaxprocs": procs})
		tr.Emit(Ev{"ev": "Stress", "procs": procs, "ops": int(ops), "dups": int(dups)})
	}
	if err := tr.Close(); err != nil {
		return err
	}
	writeSummary(*out+".summary.json", map[string]interface{}{"acquired": acquired, "ids_handed_out_again": reused})
	return nil
}
