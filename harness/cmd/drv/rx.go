package main

import (
	"context"
	"encoding/json"
	"errors"
	"flag"
	"fmt"
	"io"
	"math/rand"
	"net"
	"os"
	"sort"
	"strconv"
	"time"

	"github.com/SAP/go-dblib/tds"
)

func init() { families["rx"] = rxMain }

// goType is the Go type the library is documented to produce for a token (LookupPackage).
var goType = map[string]string{
	"DONE": "*tds.DonePackage", "DONEPROC": "*tds.DonePackage", "DONEINPROC": "*tds.DonePackage",
	"EED": "*tds.EEDPackage", "ENVCHANGE": "*tds.EnvChangePackage", "MSG": "*tds.MsgPackage",
	"RETURNSTATUS": "*tds.ReturnStatusPackage", "LOGINACK": "*tds.LoginAckPackage",
	"CAPABILITY": "*tds.CapabilityPackage", "ROWFMT": "*tds.RowFmtPackage", "ROWFMT2": "*tds.RowFmtPackage",
	"PARAMFMT": "*tds.ParamFmtPackage", "PARAMFMT2": "*tds.ParamFmtPackage", "ROW": "*tds.RowPackage",
	"PARAMS": "*tds.ParamsPackage", "ORDERBY": "*tds.OrderByPackage", "ORDERBY2": "*tds.OrderBy2Package",
	"ERROR": "*tds.ErrorPackage", "DYNAMIC": "*tds.DynamicPackage", "DYNAMIC2": "*tds.DynamicPackage",
	"CURINFO": "*tds.CurInfoPackage", "CURINFO3": "*tds.CurInfoPackage", "CURDECLARE": "*tds.CurDeclarePackage",
	"CURDECLARE3": "*tds.CurDeclarePackage", "CUROPEN": "*tds.CurOpenPackage", "CURFETCH": "*tds.CurFetchPackage",
	"CURUPDATE": "*tds.CurUpdatePackage", "CURDELETE": "*tds.CurDeletePackage", "LANGUAGE": "*tds.LanguagePackage",
}

// genericPkg: one package of the kinds whose bytes come from the (C06-checked) writers: every
// token of LookupPackage takes part in the fragmentation runs.
var genericNames = []string{"ERROR", "DYNAMIC", "DYNAMIC2", "CURINFO", "CURINFO3", "CURDECLARE", "CURDECLARE3", "CUROPEN", "CURFETCH",
	"CURUPDATE", "CURDELETE", "LANGUAGE", "MSG", "RETURNSTATUS"}

func genericPkg(rng *rand.Rand) (wPkg, bool) {
	return genericPkgOf(rng, genericNames[rng.Intn(len(genericNames))])
}

func genericPkgOf(rng *rand.Rand, want string) (wPkg, bool) {
	for _, k := range wkinds {
		if k.kind != want {
			continue
		}
		f := k.random(rng, true)
		pkg, _ := tds.LookupPackage(tds.Token(k.token))
		setFields(pkg, k, f)
		wb, st := writeBytes(pkg)
		if st != "ok" || len(wb) == 0 || wb[0] != k.token {
			return wPkg{}, false
		}
		return wPkg{Kind: k.kind, Bytes: wb, Pass: true}, true
	}
	return wPkg{}, false
}

type rxRunner struct {
	tr    *Tracer
	rng   *rand.Rand
	mc    *memConn
	conn  *tds.Conn
	ch    *tds.Channel
	nEED  int
	nEnv  int
	runs  int
	resps int
	recvs int
	kinds map[string]int
	synth string
	// C14 bookkeeping of the current run
	gotErr   bool
	complete int
	stuck    bool
	lates    int
	logical  bool // the consumer's channel is a logical channel (id > 0), set up through the reader with the peer's acknowledgement
	// capacity of the channel's package queue for the next connections (0: large, nothing ever waits)
	k int
	// > 0: the next NextPackageUntil run gets the response in two instalments (see runUntil)
	lazy int
	// the row format delivered last, and whether the next run installs it with SetLastPkgRx before
	// the response arrives (a cursor fetch: rows whose format came with an earlier response)
	lastRowFmt tds.Package
	useRowFmt  bool
}

func pkgsDesc(ps []wPkg) []map[string]interface{} {
	d := []map[string]interface{}{} // never JSON null (an empty response has no packages)
	for _, p := range ps {
		env := [][]interface{}{}
		for _, m := range p.Env {
			env = append(env, []interface{}{int(m[0][0]), m[2], m[1]}) // type, old, new
		}
		d = append(d, map[string]interface{}{"kind": p.Kind, "gt": goType[p.Kind], "len": len(p.Bytes), "pass": p.Pass,
			"final": p.Final, "done": p.Done, "hook": p.Hook, "msgno": p.MsgNo, "env": env})
	}
	return d
}

func respBytes(ps []wPkg) []byte {
	var b []byte
	for _, p := range ps {
		b = append(b, p.Bytes...)
	}
	return b
}

// fresh opens a new connection with channel 0; reader tells whether the reader goroutine runs.
func (r *rxRunner) fresh(reader bool, timeout int) error {
	if r.mc != nil {
		r.mc.Close()
	}
	r.mc = newMemConn()
	info := newInfo()
	info.PacketReadTimeout = timeout
	info.ChannelPackageQueueSize = 4096
	if r.k > 0 {
		info.ChannelPackageQueueSize = r.k
	}
	if r.logical && reader {
		// the peer acknowledges logical channel setups (header-only PROTACK packet)
		mc := r.mc
		var buf []byte
		mc.onWrite = func(b []byte) {
			buf = append(buf, b...)
			for len(buf) >= 8 {
				hl := int(buf[2])<<8 | int(buf[3])
				if hl < 8 || hl > len(buf) {
					break
				}
				if buf[0] == 8 {
					mc.Feed(mkPacket(11, 1, int(buf[4])<<8|int(buf[5]), 0, nil))
				}
				buf = buf[hl:]
			}
		}
	}
	conn, err := tds.NewConnWithTransport(context.Background(), r.mc, info, reader)
	if err != nil {
		return err
	}
	ch, err := conn.NewChannel()
	if err != nil {
		return err
	}
	if r.logical && reader {
		// the consumer sits on a logical channel (id 1), channel 0 stays idle
		if ch, err = conn.NewChannel(); err != nil {
			return err
		}
		r.mc.onWrite = nil
	}
	r.conn, r.ch = conn, ch
	r.nEED, r.nEnv = 0, 0
	r.stuck = false
	return nil
}

func (r *rxRunner) addHooks(eed, env int) {
	for i := 0; i < eed; i++ {
		h := r.nEED
		r.nEED++
		r.ch.RegisterEEDHooks(func(p tds.EEDPackage) {
			r.tr.Emit(Ev{"ev": "Hook", "h": h, "msgno": int(p.MsgNumber)})
		})
	}
	for i := 0; i < env; i++ {
		h := r.nEnv
		r.nEnv++
		r.ch.RegisterEnvChangeHooks(func(t tds.EnvChangeType, o, n string) {
			r.tr.Emit(Ev{"ev": "Env", "h": h, "typ": int(t), "old": o, "new": n})
		})
	}
	r.tr.Emit(Ev{"ev": "Hooks", "eed": r.nEED, "env": r.nEnv})
}

func (r *rxRunner) recv(pkg tds.Package) {
	k := fmt.Sprintf("%T", pkg)
	r.recvs++
	r.kinds[k]++
	fin := false
	if d, ok := pkg.(*tds.DonePackage); ok && d.Status == tds.TDS_DONE_FINAL {
		fin = true
	}
	if _, ok := pkg.(*tds.RowFmtPackage); ok {
		r.lastRowFmt = pkg
	}
	r.tr.Emit(Ev{"ev": "Recv", "kind": k, "val": dumpHash(pkg), "final": fin})
}

func recvErrClass(err error) string {
	switch {
	case errors.Is(err, tds.ErrNoPackageReady):
		return "noready"
	case errors.Is(err, context.DeadlineExceeded), errors.Is(err, context.Canceled):
		return "ctx"
	case errors.Is(err, tds.ErrChannelClosed):
		return "closed"
	}
	return "err"
}

// sendDirect hands the response, cut at the given offsets, to Channel.WritePacket.
func (r *rxRunner) sendDirect(resp []byte, cuts []int) {
	r.sendDirectRange(resp, cuts, 0, -1)
}

// sendDirectRange hands the packets number first..last-1 of the packetisation over (last < 0: all the rest)
func (r *rxRunner) sendDirectRange(resp []byte, cuts []int, first, last int) {
	from := 0
	// a repeated cut is a header-only packet in mid-response; a cut at len(resp) leaves the last data
	// packet without EOM and ends the message with a header-only EOM packet
	bounds := append(append([]int{}, cuts...), len(resp))
	for bi, to := range bounds {
		eom := bi == len(bounds)-1
		if bi < first || (last >= 0 && bi >= last) {
			from = to
			continue
		}
		r.tr.Emit(Ev{"ev": "Packet", "from": from, "to": to, "eom": eom})
		pk := &tds.Packet{Data: append([]byte(nil), resp[from:to]...)}
		pk.Header.MsgType = tds.TDS_BUF_RESPONSE
		pk.Header.Length = uint16(8 + to - from)
		if eom {
			pk.Header.Status = tds.TDS_BUFSTAT_EOM
		}
		if !r.writePacket(pk) {
			return
		}
		from = to
	}
}

// writePacket calls Channel.WritePacket under a watchdog: a call that does not return is
// recorded as an observation (event Stuck) instead of hanging the driver.
func (r *rxRunner) writePacket(pk *tds.Packet) bool {
	done := make(chan struct{})
	ch := r.ch
	go func() {
		defer func() {
			if p := recover(); p != nil {
				r.tr.Emit(Ev{"ev": "Panic", "text": fmt.Sprint(p)})
			}
			close(done)
		}()
		ch.WritePacket(pk)
	}()
	select {
	case <-done:
		return true
	case <-time.After(3 * time.Second):
		r.tr.Emit(Ev{"ev": "Stuck", "call": "WritePacket"})
		r.stuck = true
		return false
	}
}

// drain reads what is queued without waiting.
func (r *rxRunner) drain() {
	// NextPackage(wait = false) chooses at random between "nothing ready" and a queued error: only
	// after several "nothing ready" answers in a row is nothing queued (a queued error then slipped
	// through with probability 2^-8)
	idle := 0
	for idle < 8 {
		pkg, err := r.ch.NextPackage(context.Background(), false)
		if err != nil {
			if c := recvErrClass(err); c != "noready" {
				r.tr.Emit(Ev{"ev": "RecvErr", "class": c, "text": err.Error()})
				idle = 0
				continue
			}
			idle++
			continue
		}
		idle = 0
		r.recv(pkg)
	}
}

func (r *rxRunner) runEnd() {
	r.tr.Emit(Ev{"ev": "RunEnd", "ps": r.conn.PacketSize(), "gotErr": r.gotErr, "complete": r.complete})
	r.gotErr, r.complete = false, 0
	r.runs++
}

// runDirect: one run of response id with the given cut set, on a fresh connection or not.
func (r *rxRunner) runDirect(id int, resp []byte, cuts []int, mode string, fresh bool, eedHooks, envHooks int) error {
	if r.stuck {
		fresh = true
	}
	if fresh {
		if err := r.fresh(false, 1); err != nil {
			return err
		}
	}
	r.tr.Emit(Ev{"ev": "Run", "resp": id, "mode": mode, "fresh": fresh, "via": "direct"})
	if fresh || eedHooks+envHooks > 0 {
		r.addHooks(eedHooks, envHooks)
	}
	if r.useRowFmt && r.lastRowFmt != nil {
		r.ch.SetLastPkgRx(r.lastRowFmt)
	}
	r.sendDirect(resp, cuts)
	r.drain()
	r.runEnd()
	return nil
}

// runReader: the response travels as packets (cuts) through the transport with the given read
// partition (chunk sizes over the whole byte stream; the rest in one chunk).
func (r *rxRunner) runReader(id int, resp []byte, cuts []int, chunks []int, mode string, eedHooks, envHooks int) error {
	if err := r.fresh(true, 1); err != nil {
		return err
	}
	r.tr.Emit(Ev{"ev": "Run", "resp": id, "mode": mode, "fresh": true, "via": "reader"})
	r.addHooks(eedHooks, envHooks)
	var stream []byte
	from := 0
	rbounds := append(append([]int{}, cuts...), len(resp))
	for bi, to := range rbounds {
		st := 0
		if bi == len(rbounds)-1 {
			st = 1
		}
		r.tr.Emit(Ev{"ev": "Packet", "from": from, "to": to, "eom": st == 1})
		stream = append(stream, mkPacket(4, st, 0, 0, resp[from:to])...)
		from = to
	}
	var sizes []int
	r.mc.onRead = func(n int, err error) {
		if n > 0 || err != nil {
			sizes = append(sizes, n)
		}
	}
	off := 0
	for _, c := range chunks {
		if off+c > len(stream) {
			break
		}
		r.mc.Feed(stream[off : off+c])
		off += c
	}
	if off < len(stream) {
		r.mc.Feed(stream[off:])
	}
	if r.k > 0 {
		// a slow consumer: the reader goroutine has filled the small package queue and waits
		time.Sleep(30 * time.Millisecond)
	}
	// consume until the final DONE (every judged response ends with one, real or synthetic)
	for {
		ctx, cancel := context.WithTimeout(context.Background(), 3*time.Second)
		pkg, err := r.ch.NextPackage(ctx, true)
		cancel()
		if err != nil {
			if recvErrClass(err) == "ctx" {
				r.lates++
			}
			r.tr.Emit(Ev{"ev": "RecvErr", "class": recvErrClass(err), "text": err.Error()})
			break
		}
		r.recv(pkg)
		if d, ok := pkg.(*tds.DonePackage); ok && d.Status == tds.TDS_DONE_FINAL {
			break
		}
	}
	r.drain()
	r.runEnd()
	r.mc.Close()
	return nil
}

var errCb = errors.New("callback failed")

// consumeUntil consumes the current response with NextPackageUntil and a scripted callback.
// script: outcome per callback invocation ("cont","stop","eof","err"); beyond the script "cont".
// errCbWrapsEOF is a callback error that is not io.EOF but wraps it
var errCbWrapsEOF = fmt.Errorf("callback gave up reading its input: %w", io.EOF)

func (r *rxRunner) consumeUntil(script []string, nilAt int) {
	r.consumeUntilW(script, nilAt, false)
}

// consumeUntilW: firstNoWait = the first NextPackageUntil call is made with wait = false
func (r *rxRunner) consumeUntilW(script []string, nilAt int, firstNoWait bool) {
	calls := 0
	cbs := 0
	for {
		sawFinal := false
		outcome := ""
		useNil := calls == nilAt
		r.tr.Emit(Ev{"ev": "UntilStart", "nilcb": useNil})
		var cb func(tds.Package) (bool, error)
		if !useNil {
			cb = func(pkg tds.Package) (bool, error) {
				out := "cont"
				if cbs < len(script) {
					out = script[cbs]
				}
				cbs++
				fin := false
				if d, ok := pkg.(*tds.DonePackage); ok && d.Status == tds.TDS_DONE_FINAL {
					fin = true
					sawFinal = true
					if out == "cont" {
						out = "stop"
					}
				}
				outcome = out
				r.tr.Emit(Ev{"ev": "Cb", "kind": fmt.Sprintf("%T", pkg), "val": dumpHash(pkg), "final": fin, "out": out})
				switch out {
				case "stop":
					return true, nil
				case "eof":
					return false, io.EOF
				case "err":
					// the boolean beside an error says nothing: "done" and an error is an error all the same
					done := cbs%3 == 0
					if cbs%2 == 0 {
						// another error, which merely wraps io.EOF (only the unwrapped io.EOF is special)
						return done, errCbWrapsEOF
					}
					return done, errCb
				}
				return false, nil
			}
		}
		ctx, cancel := context.WithTimeout(context.Background(), 2*time.Second)
		pkg, err := r.ch.NextPackageUntil(ctx, !(firstNoWait && calls == 0), cb)
		cancel()
		calls++
		ret := "nil"
		if pkg != nil {
			ret = "pkg"
		}
		class := "other"
		switch {
		case err == nil:
			class = "nil"
		case errors.Is(err, errCb), errors.Is(err, errCbWrapsEOF):
			class = "cb"
		case errors.Is(err, context.DeadlineExceeded):
			class = "ctx"
			r.lates++
		case errors.Is(err, io.EOF):
			class = "eof"
		case errors.Is(err, tds.ErrNoPackageReady):
			class = "noready"
		}
		eeds := []int{}
		var ee *tds.EEDError
		if err != nil && errors.As(err, &ee) {
			for _, e := range ee.EEDPackages {
				eeds = append(eeds, int(e.MsgNumber))
			}
		}
		r.tr.Emit(Ev{"ev": "UntilEnd", "ret": ret, "err": class, "iscb": err != nil && (errors.Is(err, errCb) || errors.Is(err, errCbWrapsEOF)), "eeds": eeds})
		if class == "noready" && calls < 50 {
			time.Sleep(5 * time.Millisecond)
			continue // nothing was queued yet: call again (the following calls wait)
		}
		if useNil || sawFinal || outcome == "err" || class == "ctx" || class == "other" {
			return
		}
	}
}

// runUntil: like runDirect, but the consumer uses NextPackageUntil.
func (r *rxRunner) runUntil(id int, resp []byte, cuts []int, fresh bool, eedHooks, envHooks int, script []string, nilAt int) error {
	if r.stuck {
		fresh = true
	}
	if fresh {
		if err := r.fresh(false, 1); err != nil {
			return err
		}
	}
	r.tr.Emit(Ev{"ev": "Run", "resp": id, "mode": "frag", "fresh": fresh, "via": "until"})
	if fresh || eedHooks+envHooks > 0 {
		r.addHooks(eedHooks, envHooks)
	}
	if r.lazy > 0 && len(cuts) >= 1 {
		// the response arrives in two instalments: the consumer's first call (wait = false) finds only
		// the first packets queued and has to go on waiting for the rest
		first := 1 + (r.lazy-1)%len(cuts)
		r.sendDirectRange(resp, cuts, 0, first)
		done := make(chan struct{})
		go func() {
			defer close(done)
			time.Sleep(25 * time.Millisecond)
			r.sendDirectRange(resp, cuts, first, -1)
		}()
		if !r.stuck {
			r.consumeUntilW(script, nilAt, true)
		}
		<-done
	} else {
		r.sendDirect(resp, cuts)
		if !r.stuck {
			r.consumeUntil(script, nilAt)
		}
	}
	r.drain()
	r.runEnd()
	return nil
}

// runReqResp: a request / response round through the transport.  The client sends a request with
// SendPackage; the peer answers as soon as it has the request's last packet - while the client's
// Write call of that packet has not returned yet (a slow network write) - so the response is parsed
// before the send call comes back.  Then the consumer reads up to the final DONE.
func (r *rxRunner) runReqResp(id int, resp []byte, cuts []int, fresh bool) error {
	if r.stuck {
		fresh = true
	}
	if fresh {
		if err := r.fresh(true, 1); err != nil {
			return err
		}
	}
	r.tr.Emit(Ev{"ev": "Run", "resp": id, "mode": "frag", "fresh": fresh, "via": "reqresp"})
	if fresh {
		r.addHooks(1, 1)
	}
	fed := false
	mc := r.mc
	mc.onWrite = func(b []byte) {
		if fed || len(b) < 8 || b[1]&1 == 0 {
			return
		}
		fed = true
		from := 0
		bounds := append(append([]int{}, cuts...), len(resp))
		for bi, to := range bounds {
			st := 0
			if bi == len(bounds)-1 {
				st = 1
			}
			r.tr.Emit(Ev{"ev": "Packet", "from": from, "to": to, "eom": st == 1})
			mc.Feed(mkPacket(4, st, 0, 0, resp[from:to]))
			from = to
		}
		time.Sleep(20 * time.Millisecond) // the Write call returns late: the answer is already being parsed
	}
	sctx, scancel := context.WithTimeout(context.Background(), 3*time.Second)
	err := r.ch.SendPackage(sctx, &tds.LanguagePackage{Cmd: "select 1"})
	scancel()
	mc.onWrite = nil
	if err != nil {
		r.tr.Emit(Ev{"ev": "RecvErr", "class": "err", "text": "send: " + err.Error()})
	}
	for {
		ctx, cancel := context.WithTimeout(context.Background(), 3*time.Second)
		pkg, err := r.ch.NextPackage(ctx, true)
		cancel()
		if err != nil {
			if recvErrClass(err) == "ctx" {
				r.lates++
			}
			r.tr.Emit(Ev{"ev": "RecvErr", "class": recvErrClass(err), "text": err.Error()})
			break
		}
		r.recv(pkg)
		if d, ok := pkg.(*tds.DonePackage); ok && d.Status == tds.TDS_DONE_FINAL {
			break
		}
	}
	r.drain()
	r.runEnd()
	return nil
}

type failErr struct{ kind string }

func (e failErr) Error() string   { return "read: " + e.kind }
func (e failErr) Timeout() bool   { return e.kind == "i/o timeout" }
func (e failErr) Temporary() bool { return false }

// runFail: the response travels through the transport, which fails after `off` bytes of the
// byte stream with the given failure kind (C14).
func (r *rxRunner) runFail(id int, ps []wPkg, cuts []int, off int, kind string, timeout int, chunks []int) error {
	resp := respBytes(ps)
	if err := r.fresh(true, timeout); err != nil {
		return err
	}
	r.tr.Emit(Ev{"ev": "Run", "resp": id, "mode": "frag", "fresh": true, "via": "fail"})
	r.addHooks(1, 1)
	// the byte stream and which packets lie completely before the failure offset
	var stream []byte
	type pk struct{ from, to, end int }
	var pks []pk
	from := 0
	fbounds := append(append([]int{}, cuts...), len(resp))
	for bi, to := range fbounds {
		st := 0
		if bi == len(fbounds)-1 {
			st = 1
		}
		stream = append(stream, mkPacket(4, st, r.ch.VerifChannelID(), 0, resp[from:to])...)
		pks = append(pks, pk{from, to, len(stream)})
		from = to
	}
	if off > len(stream) {
		off = len(stream)
	}
	covered := 0
	for _, p := range pks {
		if p.end <= off {
			r.tr.Emit(Ev{"ev": "Packet", "from": p.from, "to": p.to, "eom": p.end == len(stream)})
			covered = p.to
		}
	}
	complete := 0
	o := 0
	for _, p := range ps {
		o += len(p.Bytes)
		if o <= covered && p.Pass {
			complete++
		}
	}
	r.tr.Emit(Ev{"ev": "Fail", "kind": kind, "off": off, "of": len(stream)})
	var ferr error
	switch kind {
	case "eof", "eofdata":
		ferr = io.EOF
	case "closed": // the errors a closed socket / pipe reports (the peer's end, a proxy, the operating system)
		ferr = &net.OpError{Op: "read", Net: "tcp", Err: net.ErrClosed}
	case "closedpipe":
		ferr = io.ErrClosedPipe
	case "resetdata":
		ferr = failErr{"connection reset by peer"}
	case "reset":
		ferr = failErr{"connection reset by peer"}
	default:
		ferr = failErr{"i/o timeout"}
	}
	r.mc.mu.Lock()
	r.mc.idleErr = ferr
	// feed under the lock so that the reader cannot see the failure before the data
	pos := 0
	for _, c := range chunks {
		if pos+c > off {
			break
		}
		r.mc.rq = append(r.mc.rq, readItem{data: append([]byte(nil), stream[pos:pos+c]...)})
		pos += c
	}
	if pos < off {
		r.mc.rq = append(r.mc.rq, readItem{data: append([]byte(nil), stream[pos:off]...)})
	}
	if (kind == "eofdata" || kind == "resetdata") && len(r.mc.rq) > 0 {
		// the transport reports the end of the stream / the failure together with the last bytes it delivers
		r.mc.rq[len(r.mc.rq)-1].tail = ferr
	}
	r.mc.mu.Unlock()
	r.mc.cond.Broadcast()
	start := time.Now()
	gotErr := false
	for i := 0; i < len(ps)+3; i++ {
		ctx, cancel := context.WithTimeout(context.Background(), time.Duration(timeout+4)*time.Second)
		pkg, err := r.ch.NextPackage(ctx, true)
		cancel()
		if err != nil {
			c := recvErrClass(err)
			if c == "ctx" {
				c = "late" // no error within the read timeout (+ slack): the consumer would block
				r.lates++
			}
			r.tr.Emit(Ev{"ev": "RecvErr", "class": c, "text": err.Error(), "ms": int(time.Since(start).Milliseconds())})
			gotErr = c == "err"
			break
		}
		r.recv(pkg)
	}
	// the connection stays failed: whoever receives again is told so as well, within the same bound
	// (a consumer that retries, the drain of NextPackageUntil, the consumer of another channel)
	for i := 0; gotErr && i < 2; i++ {
		start = time.Now()
		ctx, cancel := context.WithTimeout(context.Background(), time.Duration(timeout+2)*time.Second)
		pkg, err := r.ch.NextPackage(ctx, true)
		cancel()
		if err == nil {
			r.recv(pkg)
			continue
		}
		c := recvErrClass(err)
		if c == "ctx" {
			c = "late"
			r.lates++
		}
		r.tr.Emit(Ev{"ev": "RecvErr", "class": c, "text": err.Error(), "ms": int(time.Since(start).Milliseconds()), "again": i + 1})
		if c != "err" {
			break
		}
	}
	r.gotErr, r.complete = gotErr, complete
	r.runEnd()
	r.mc.Close()
	return nil
}

func (r *rxRunner) resp(id int, ps []wPkg) {
	packsize := 0
	for _, p := range ps {
		for _, m := range p.Env {
			if m[0] == "\x04" {
				packsize, _ = strconv.Atoi(m[1])
			}
		}
	}
	r.tr.Emit(Ev{"ev": "Resp", "id": id, "pkgs": pkgsDesc(ps), "total": len(respBytes(ps)), "synth": r.synth,
		"packsize": packsize})
	r.resps++
}

// ---------------------------------------------------------------- response generators

// withEmpty adds header-only packets to a packetisation (C02: "all packet sizes incl. header-only"):
// a repeated cut (or a cut at 0) is a header-only packet inside the response, a cut at n ends the
// message with a header-only EOM packet behind a last data packet without EOM.
func withEmpty(rng *rand.Rand, cs []int, n int) []int {
	out := append([]int{}, cs...)
	mid := func() {
		if len(out) > 0 && rng.Intn(3) > 0 {
			out = append(out, out[rng.Intn(len(out))])
		} else {
			out = append(out, 0)
		}
	}
	switch rng.Intn(3) {
	case 0:
		out = append(out, n)
	case 1:
		mid()
	default:
		mid()
		out = append(out, n)
	}
	sort.Ints(out)
	return out
}

// quietResponse: a response from which nothing reaches the consumer and that carries no DONE - only
// informational messages / environment changes, or no package at all (C03: "empty" response shape;
// the final DONE is missing and must be supplied)
func quietResponse(rng *rand.Rand) []wPkg {
	var ps []wPkg
	for k := rng.Intn(3); k > 0; k-- {
		if rng.Intn(2) == 0 {
			ps = append(ps, randEED(rng, true))
		} else {
			ps = append(ps, randEnv(rng, 0))
		}
	}
	return ps
}

// randCuts: up to k cut offsets inside 1..n-1 (none for n < 2)
func randCuts(rng *rand.Rand, k, n int) []int {
	var cs []int
	for j := 0; j < k && n > 1; j++ {
		cs = append(cs, 1+rng.Intn(n-1))
	}
	return uniq(sortInts(cs))
}

// randResponse builds a response from which at least one package reaches the consumer; a final DONE
// (status 0) occurs only as the last package.
func randResponse(rng *rand.Rand, maxVar int, packSize int) []wPkg {
	var ps []wPkg
	special := func() {
		switch rng.Intn(6) {
		case 0:
			ps = append(ps, randEED(rng, true))
		case 1:
			ps = append(ps, randEED(rng, false))
		case 2:
			ps = append(ps, randEnv(rng, 0))
		}
	}
	nsets := 1 + rng.Intn(2)
	for s := 0; s < nsets; s++ {
		special()
		switch rng.Intn(6) {
		case 0, 1, 2: // a result set
			wide := true
			cols := randCols(rng, 1+rng.Intn(5), wide)
			ps = append(ps, encFmt(rng, tokRowFmt2, cols, fmtOpts{wide: true, row: true}))
			if rng.Intn(4) == 0 {
				ps = append(ps, encOrderBy2([]int{1}))
			}
			for i := rng.Intn(4); i > 0; i-- {
				ps = append(ps, encData(rng, tokRow, cols, maxVar))
				if rng.Intn(5) == 0 {
					special()
				}
			}
		case 3: // return parameters
			wide := rng.Intn(2) == 0
			cols := randCols(rng, 1+rng.Intn(3), wide)
			tok := tokParamFmt
			if wide {
				tok = tokParamFmt2
			}
			ps = append(ps, encFmt(rng, tok, cols, fmtOpts{wide: wide, narrowL2: !wide}))
			ps = append(ps, encData(rng, tokParams, cols, maxVar))
		case 4, 5:
			ps = append(ps, encRetStat(int32(rng.Uint32())))
			if rng.Intn(2) == 0 {
				ps = append(ps, encMsg(rng.Intn(2), 1+rng.Intn(40)))
			}
			switch rng.Intn(4) {
			case 0:
				ps = append(ps, encLoginAck(5+rng.Intn(3), [4]byte{5, 0, 0, 0}, randName(rng, 12), [4]byte{16, 0, 2, 1}))
			case 1:
				ps = append(ps, encCapability([]int{1, 2}, map[int][]byte{1: capMask(peerReqCaps), 2: capMask(peerResCaps)}))
			case 2: // a narrow result set: ROWFMT (2-byte length), ORDERBY, ROW
				cols := randCols(rng, 1+rng.Intn(3), false)
				ps = append(ps, encFmt(rng, tokRowFmt, cols, fmtOpts{row: true, narrowL2: true}))
				if rng.Intn(2) == 0 {
					ps = append(ps, encOrderBy([]int{1, 2}))
				}
				ps = append(ps, encData(rng, tokRow, cols, maxVar))
			}
			for k := rng.Intn(3); k > 0; k-- {
				if g, ok := genericPkg(rng); ok {
					ps = append(ps, g)
				}
			}
		}
		if s < nsets-1 || rng.Intn(3) > 0 {
			// DONE of an intermediate result set carries MORE / COUNT / PROC bits, never status 0
			tok := pick(rng, tokDone, tokDone, tokDoneProc, tokDoneInProc)
			st := pick(rng, 0x1, 0x11, 0x9, 0x10, 0x2, 0x8)
			if s == nsets-1 {
				st = pick(rng, 0x10, 0x8, 0x2, 0x12, 0x0, 0x0, 0x0)
			}
			ps = append(ps, encDone(tok, st, rng.Intn(5), int32(rng.Intn(1000))))
		}
	}
	if packSize > 0 {
		ps = append([]wPkg{randEnv(rng, packSize)}, ps...)
	}
	if rng.Intn(8) == 0 && !ps[len(ps)-1].Final {
		special() // a message the consumer sees is never placed behind the final DONE
	}
	if rng.Intn(8) == 0 && ps[len(ps)-1].Final {
		// packages the consumer never sees may follow the final DONE: it stays the end of the response
		if rng.Intn(2) == 0 {
			ps = append(ps, randEED(rng, true))
		} else {
			ps = append(ps, randEnv(rng, 0))
		}
	}
	return ps
}

// smallResponse: short packages only (so that all 2^(n-1) cut sets are feasible).
func smallResponse(rng *rand.Rand) []wPkg {
	var ps []wPkg
	switch rng.Intn(4) {
	case 0:
		ps = append(ps, encMsg(1, 7))
	case 1:
		ps = append(ps, encRetStat(5))
	case 2:
		ps = append(ps, encEnv([][3]string{{"\x01", "a", "b"}}), encRetStat(1))
	case 3:
		ps = append(ps, encMsg(0, 3), encRetStat(-1))
	}
	if rng.Intn(2) == 0 {
		ps = append(ps, encDone(tokDone, pick(rng, 0, 0x10), 0, 1))
	}
	return ps
}

func pkgEnds(ps []wPkg) []int {
	var e []int
	o := 0
	for _, p := range ps {
		o += len(p.Bytes)
		e = append(e, o)
	}
	return e
}

// concretise maps an abstract response of RxPath.tla to real packages.
func concretise(rng *rand.Rand, abs []struct {
	K string `json:"k"`
	N int    `json:"n"`
}) []wPkg {
	var ps []wPkg
	for _, a := range abs {
		switch a.K {
		case "row":
			if rng.Intn(2) == 0 {
				ps = append(ps, encMsg(rng.Intn(2), 1+rng.Intn(40)))
			} else {
				ps = append(ps, encRetStat(int32(rng.Intn(100))))
			}
		case "doneF":
			ps = append(ps, encDone(pick(rng, tokDone, tokDoneProc, tokDoneInProc), 0, 0, int32(rng.Intn(9))))
		case "doneM":
			ps = append(ps, encDone(pick(rng, tokDone, tokDoneProc, tokDoneInProc), pick(rng, 1, 0x10, 0x11, 0x8, 0x2), 0, int32(rng.Intn(9))))
		case "info":
			ps = append(ps, randEED(rng, true))
		case "eed":
			ps = append(ps, randEED(rng, false))
		case "env":
			ps = append(ps, randEnv(rng, 0))
		}
	}
	return ps
}

// mapOffset maps an abstract byte offset (inside the abstract response) to a real offset of the
// same structural class: package end -> package end, after the first byte -> after the token,
// interior -> an interior offset.
func mapOffset(rng *rand.Rand, absN []int, real []wPkg, o int) int {
	base := 0
	for i, n := range absN {
		L := len(real[i].Bytes)
		if o <= n {
			switch {
			case o == n:
				return base + L
			case o == 1:
				return base + 1
			default:
				return base + 2 + rng.Intn(L-2)
			}
		}
		o -= n
		base += L
	}
	return base
}

type rxAbsStep struct {
	Op   string `json:"op"` // Send (n bytes, e: carries EOM), Empty (header-only packet, e: EOM), Round
	N    int    `json:"n"`
	E    bool   `json:"e"`
	Resp []struct {
		K string `json:"k"`
		N int    `json:"n"`
	} `json:"resp"`
	Del []int `json:"del"`
}

func rxMain(args []string) error {
	fs := flag.NewFlagSet("rx", flag.ExitOnError)
	out := fs.String("out", "rx.ndjson", "trace file")
	seed := fs.Int64("seed", 1, "seed")
	scn := fs.String("scn", "", "behaviours generated by TLC from RxPath.tla")
	nfrag := fs.Int("frag", 0, "responses for the packetisation driver")
	nsmall := fs.Int("small", 0, "short responses with all 2^(n-1) cut sets")
	nreads := fs.Int("reads", 0, "responses for the read-partition driver")
	nrounds := fs.Int("rounds", 0, "multi-round scenarios")
	nuntil := fs.Int("until", 0, "multi-round scenarios consumed with NextPackageUntil")
	untilScn := fs.String("untilscn", "", "consumer behaviours generated by TLC from Until.tla")
	nkinds := fs.Int("kinds", 0, "per package kind: this many one-package responses, every 1-cut each")
	nreqresp := fs.Int("reqresp", 0, "request / response rounds through the transport (the answer arrives before the send call returns)")
	nerrorder := fs.Int("errorder", 0, "stress trials: a consumer polling while a complete packet is followed at once by the end of the stream")
	nfail := fs.Int("fail", 0, "responses for the transport-failure driver (every byte offset)")
	failTimeout := fs.Int("failtimeout", 0, "PacketReadTimeout (s) for the failure driver")
	failStep := fs.Int("failstep", 1, "failure driver: only every n-th offset (plus the first and last)")
	maxcuts := fs.Int("maxcuts", 120, "cut sets per response (1-cuts first, then 2-cuts, then random)")
	fs.Parse(args)
	tr, err := NewTracer(*out)
	if err != nil {
		return err
	}
	rng := rand.New(rand.NewSource(*seed))
	r := &rxRunner{tr: tr, rng: rng, kinds: map[string]int{}}
	r.synth = dumpHash(&tds.DonePackage{Status: tds.TDS_DONE_FINAL})

	if *scn != "" {
		b, err := os.ReadFile(*scn)
		if err != nil {
			return err
		}
		var scns [][]rxAbsStep
		if err := json.Unmarshal(b, &scns); err != nil {
			return err
		}
		for _, steps := range scns {
			// split into rounds
			type round struct {
				abs []struct {
					K string `json:"k"`
					N int    `json:"n"`
				}
				sends []int // bytes per packet of the model's packetisation; 0 = header-only packet
			}
			var rounds []round
			for _, st := range steps {
				if st.Op == "Round" || len(rounds) == 0 {
					rounds = append(rounds, round{abs: st.Resp})
				}
				if st.Op == "Send" {
					rounds[len(rounds)-1].sends = append(rounds[len(rounds)-1].sends, st.N)
				}
				if st.Op == "Empty" {
					rounds[len(rounds)-1].sends = append(rounds[len(rounds)-1].sends, 0)
				}
			}
			tr.Reset(steps)
			var reals [][]wPkg
			for i, rd := range rounds {
				ps := concretise(rng, rd.abs)
				reals = append(reals, ps)
				r.resp(i+1, ps)
				if err := r.runDirect(i+1, respBytes(ps), nil, "ref", true, 1, 1); err != nil {
					return err
				}
			}
			for i, rd := range rounds {
				var absN []int
				for _, a := range rd.abs {
					absN = append(absN, a.N)
				}
				// the packet boundaries of the model's packetisation, mapped to the concrete bytes; a
				// header-only packet repeats the boundary in front of it (sendDirect turns that into an
				// empty packet; the last boundary is always len(resp) and implied)
				var cuts []int
				o, last := 0, 0
				for j, n := range rd.sends {
					if j == len(rd.sends)-1 {
						break
					}
					if n == 0 {
						cuts = append(cuts, last)
						continue
					}
					o += n
					c := mapOffset(rng, absN, reals[i], o)
					if c < last {
						c = last
					}
					if c == last && c != len(respBytes(reals[i])) && o < sumInts(absN) {
						continue // two model packets fell onto one concrete offset: one packet
					}
					cuts = append(cuts, c)
					last = c
				}
				if err := r.runDirect(i+1, respBytes(reals[i]), cuts, "frag", i == 0, b2i(i == 0), b2i(i == 0)); err != nil {
					return err
				}
			}
		}
	}

	for i := 0; i < *nfrag; i++ {
		if r.lates >= 6 {
			break // enough calls ran into the watchdog: the trace so far decides
		}
		ps := randResponse(rng, 40, 0)
		resp := respBytes(ps)
		tr.Reset(map[string]interface{}{"driver": "frag", "seed": *seed, "i": i})
		r.resp(1, ps)
		if err := r.runDirect(1, resp, nil, "ref", true, 2, 1); err != nil {
			return err
		}
		n := len(resp)
		var sets [][]int
		for c := 1; c < n; c++ { // every 1-cut
			sets = append(sets, []int{c})
		}
		rng.Shuffle(len(sets), func(a, b int) { sets[a], sets[b] = sets[b], sets[a] })
		if len(sets) > *maxcuts/2 {
			// keep every package boundary +-1 and a random sample of the rest
			keep := map[int]bool{}
			for _, e := range pkgEnds(ps) {
				for d := -1; d <= 1; d++ {
					if e+d >= 1 && e+d < n {
						keep[e+d] = true
					}
				}
			}
			var ks [][]int
			for c := range keep {
				ks = append(ks, []int{c})
			}
			sort.Slice(ks, func(a, b int) bool { return ks[a][0] < ks[b][0] })
			sets = append(ks, sets[:*maxcuts/2]...)
		}
		for len(sets) < *maxcuts+len(pkgEnds(ps))*3 { // 2-cuts and random cut sets
			k := 2 + rng.Intn(4)
			if rng.Intn(6) == 0 {
				k = 1 + rng.Intn(n-1)
			}
			m := map[int]bool{}
			for j := 0; j < k; j++ {
				m[1+rng.Intn(n-1)] = true
			}
			var cs []int
			for c := range m {
				cs = append(cs, c)
			}
			sort.Ints(cs)
			sets = append(sets, cs)
		}
		// one byte per packet
		var all []int
		for c := 1; c < n; c++ {
			all = append(all, c)
		}
		sets = append(sets, all)
		for j := 0; j < 8; j++ { // packetisations with header-only packets
			sets = append(sets, withEmpty(rng, sets[rng.Intn(len(sets))], n))
		}
		for _, cs := range sets {
			if err := r.runDirect(1, resp, cs, "frag", true, 2, 1); err != nil {
				return err
			}
		}
	}

	// every package kind on its own (with what it needs in front of it), cut at every offset: a
	// boundary at each of its internal read points
	for i := 0; i < *nkinds; i++ {
		var shapes [][]wPkg
		for _, name := range genericNames {
			if g, ok := genericPkgOf(rng, name); ok {
				shapes = append(shapes, []wPkg{g})
			}
		}
		shapes = append(shapes, []wPkg{randEED(rng, false)}, []wPkg{randEED(rng, true), encRetStat(1)}, []wPkg{randEnv(rng, 0), encRetStat(2)},
			[]wPkg{encEnv([][3]string{{"\x01", "master", "tempdb"}, {"\x02", "us_english", ""}}), encRetStat(3)},
			[]wPkg{encEnv([][3]string{{"\x03", "utf8", "iso_1"}, {"\x01", "a", "b"}, {"\x02", "", "x"}}), encRetStat(4)},
			[]wPkg{encLoginAck(5, [4]byte{5, 0, 0, 0}, randName(rng, 6), [4]byte{16, 0, 2, 1})},
			[]wPkg{encCapability([]int{1, 2}, map[int][]byte{1: capMask(peerReqCaps), 2: capMask(peerResCaps)})},
			[]wPkg{encDone(pick(rng, tokDone, tokDoneProc, tokDoneInProc), pick(rng, 0x10, 0x1, 0x11), 1, 7)})
		{
			cols := randCols(rng, 1+rng.Intn(3), true)
			shapes = append(shapes, []wPkg{encFmt(rng, tokRowFmt2, cols, fmtOpts{wide: true, row: true}), encOrderBy2([]int{1}), encData(rng, tokRow, cols, 6)})
			ncols := randCols(rng, 1+rng.Intn(3), false)
			shapes = append(shapes, []wPkg{encFmt(rng, tokRowFmt, ncols, fmtOpts{row: true, narrowL2: true}), encOrderBy([]int{1, 2}), encData(rng, tokRow, ncols, 6)})
			pcols := randCols(rng, 1+rng.Intn(2), i%2 == 0)
			tok := tokParamFmt
			if i%2 == 0 {
				tok = tokParamFmt2
			}
			shapes = append(shapes, []wPkg{encFmt(rng, tok, pcols, fmtOpts{wide: i%2 == 0, narrowL2: i%2 != 0}), encData(rng, tokParams, pcols, 6)})
		}
		for si, ps := range shapes {
			if r.lates >= 6 {
				break
			}
			if rng.Intn(2) == 0 {
				ps = append(ps, encDone(tokDone, 0, 0, 1))
			}
			resp := respBytes(ps)
			n := len(resp)
			if n > 400 || n < 2 {
				continue
			}
			tr.Reset(map[string]interface{}{"driver": "kinds", "seed": *seed, "i": i, "shape": si})
			r.resp(1, ps)
			if err := r.runDirect(1, resp, nil, "ref", true, 1, 1); err != nil {
				return err
			}
			for c := 1; c < n; c++ {
				if err := r.runDirect(1, resp, []int{c}, "frag", true, 1, 1); err != nil {
					return err
				}
			}
		}
	}

	for i := 0; i < *nsmall; i++ {
		ps := smallResponse(rng)
		resp := respBytes(ps)
		n := len(resp)
		if n > 13 {
			continue
		}
		tr.Reset(map[string]interface{}{"driver": "small", "seed": *seed, "i": i})
		r.resp(1, ps)
		if err := r.runDirect(1, resp, nil, "ref", true, 1, 1); err != nil {
			return err
		}
		for mask := 1; mask < 1<<(n-1); mask++ {
			var cs []int
			for c := 1; c < n; c++ {
				if mask&(1<<(c-1)) != 0 {
					cs = append(cs, c)
				}
			}
			if err := r.runDirect(1, resp, cs, "frag", true, 1, 1); err != nil {
				return err
			}
			if mask%5 == i%5 { // the same cut set with header-only packets
				if err := r.runDirect(1, resp, withEmpty(rng, cs, n), "frag", true, 1, 1); err != nil {
					return err
				}
			}
		}
	}

	for i := 0; i < *nreads; i++ {
		if r.lates >= 6 {
			break // enough calls ran into the watchdog: the trace so far decides
		}
		ps := randResponse(rng, 20, 0)
		if i%3 == 1 {
			// a response that does not fit into a packet of the size in force: as one packet it is larger
			// than anything the client itself would send (the server is free to do so)
			for try := 0; try < 20 && len(respBytes(ps)) < 700; try++ {
				ps = randResponse(rng, 1500, 0)
			}
		}
		resp := respBytes(ps)
		n := len(resp)
		tr.Reset(map[string]interface{}{"driver": "reads", "seed": *seed, "i": i})
		r.resp(1, ps)
		if err := r.runDirect(1, resp, nil, "ref", true, 1, 1); err != nil {
			return err
		}
		cut := 1 + rng.Intn(n-1)
		cut2 := 1 + rng.Intn(n-1)
		cutsets := [][]int{nil, {cut}, uniq(sortInts([]int{cut, cut2})), withEmpty(rng, []int{cut}, n)}
		for ci, cs := range cutsets {
			total := n + 8*(len(cs)+1)
			var parts [][]int
			one := make([]int, total)
			for j := range one {
				one[j] = 1
			}
			parts = append(parts, nil) // a single read
			parts = append(parts, one) // one byte at a time
			for h := 1; h <= 7; h++ {  // split inside the first header
				parts = append(parts, []int{h})
			}
			if len(cs) > 0 { // split inside the second header
				second := 8 + cs[0]
				for h := 1; h <= 7; h += 2 {
					parts = append(parts, []int{second + h})
				}
				parts = append(parts, []int{second})
			}
			for j := 0; j < 6; j++ { // splits in bodies / random
				var p []int
				left := total
				for left > 0 && len(p) < 8 {
					c := 1 + rng.Intn(left)
					p = append(p, c)
					left -= c
				}
				parts = append(parts, p)
			}
			if ci > 0 && i%3 != 0 {
				parts = parts[:6]
			}
			for pi, p := range parts {
				// every third run with a package queue of 1..3 entries and a consumer that starts late
				r.k = 0
				if pi%3 == 1 {
					r.k = 1 + (pi+i)%3
				}
				err := r.runReader(1, resp, cs, p, "frag", 1, 1)
				r.k = 0
				if err != nil {
					return err
				}
			}
		}
	}

	for i := 0; i < *nrounds; i++ {
		if r.lates >= 6 {
			break // enough calls ran into the watchdog: the trace so far decides
		}
		tr.Reset(map[string]interface{}{"driver": "rounds", "seed": *seed, "i": i})
		nr := 2 + rng.Intn(3)
		var resps [][]wPkg
		var fetch []bool
		for k := 0; k < nr; k++ {
			pack := 0
			if rng.Intn(4) == 0 {
				pack = 256 + rng.Intn(4096)
			}
			ps := randResponse(rng, 30, pack)
			if k > 0 && rng.Intn(5) == 0 {
				ps = quietResponse(rng)
			}
			isFetch := false
			if k > 0 && rng.Intn(3) == 0 {
				// a cursor fetch: only rows, in the format the previous response announced last
				// (the client installs it with SetLastPkgRx)
				prev := resps[k-1]
				for j := len(prev) - 1; j >= 0; j-- {
					if (prev[j].Kind == "ROWFMT" || prev[j].Kind == "ROWFMT2") && len(prev[j].Cols) > 0 {
						ps = nil
						for n := 1 + rng.Intn(3); n > 0; n-- {
							ps = append(ps, encData(rng, tokRow, prev[j].Cols, 10))
						}
						ps = append(ps, encDone(tokDone, pick(rng, 0, 0, 0x10), 0, int32(len(ps))))
						isFetch = true
						break
					}
				}
			}
			fetch = append(fetch, isFetch)
			resps = append(resps, ps)
			r.resp(k+1, ps)
			r.useRowFmt = isFetch
			err := r.runDirect(k+1, respBytes(ps), nil, "ref", true, 1, 1)
			r.useRowFmt = false
			if err != nil {
				return err
			}
		}
		for k, ps := range resps {
			resp := respBytes(ps)
			cs := randCuts(rng, rng.Intn(5), len(resp))
			if rng.Intn(3) == 0 {
				cs = withEmpty(rng, cs, len(resp))
			}
			eh, vh := 0, 0
			if k == 0 {
				eh, vh = 1+rng.Intn(2), 1
			} else if rng.Intn(3) == 0 {
				eh, vh = 1, rng.Intn(2) // hooks registered between responses
			}
			r.useRowFmt = fetch[k]
			err := r.runDirect(k+1, resp, cs, "frag", k == 0, eh, vh)
			r.useRowFmt = false
			if err != nil {
				return err
			}
		}
	}

	for i := 0; i < *nreqresp; i++ {
		if r.lates >= 6 {
			break
		}
		tr.Reset(map[string]interface{}{"driver": "reqresp", "seed": *seed, "i": i})
		nr := 2 + rng.Intn(2)
		var resps [][]wPkg
		for k := 0; k < nr; k++ {
			ps := randResponse(rng, 20, 0)
			resps = append(resps, ps)
			r.resp(k+1, ps)
			if err := r.runDirect(k+1, respBytes(ps), nil, "ref", true, 1, 1); err != nil {
				return err
			}
		}
		for k, ps := range resps {
			resp := respBytes(ps)
			if err := r.runReqResp(k+1, resp, randCuts(rng, rng.Intn(3), len(resp)), k == 0); err != nil {
				return err
			}
		}
		r.mc.Close()
	}

	if *untilScn != "" {
		b, err := os.ReadFile(*untilScn)
		if err != nil {
			return err
		}
		var scns []struct {
			Body   []string `json:"body"`
			Script []string `json:"script"`
			NilAt  int      `json:"nilat"`
		}
		if err := json.Unmarshal(b, &scns); err != nil {
			return err
		}
		for i, sc := range scns {
			if i%40 == 0 {
				tr.Reset(map[string]interface{}{"driver": "untilscn", "i": i})
			}
			var abs []struct {
				K string `json:"k"`
				N int    `json:"n"`
			}
			if r.lates >= 6 {
				break // enough calls ran into the watchdog: the trace so far decides
			}
			for _, k := range sc.Body {
				abs = append(abs, struct {
					K string `json:"k"`
					N int    `json:"n"`
				}{k, 2})
			}
			// the closing final DONE is the server's or - when the response lacks one - the library's
			if rng.Intn(2) == 0 {
				abs = append(abs, struct {
					K string `json:"k"`
					N int    `json:"n"`
				}{"doneF", 2})
			}
			ps := concretise(rng, abs)
			if len(ps) == 0 {
				ps = append(ps, encDone(tokDone, 0, 0, 0))
			}
			resp := respBytes(ps)
			id := i%40 + 1
			r.resp(id, ps)
			if err := r.runDirect(id, resp, nil, "ref", true, 1, 1); err != nil {
				return err
			}
			var cs []int
			for j := rng.Intn(3); j > 0 && len(resp) > 1; j-- {
				cs = append(cs, 1+rng.Intn(len(resp)-1))
			}
			if err := r.runUntil(id, resp, uniq(sortInts(cs)), true, 1, 1, sc.Script, sc.NilAt-1); err != nil {
				return err
			}
		}
	}

	// directed: the response begins with server messages, which arrive alone in a first packet; the
	// consumer's first call does not wait; the rest follows; the callback fails at the k-th package:
	// the error carries the messages of the whole call sequence
	if *nuntil > 0 {
		for d := 0; d < 12; d++ {
			tr.Reset(map[string]interface{}{"driver": "until-lazy", "seed": *seed, "d": d})
			var ps []wPkg
			for n := 1 + d%2; n > 0; n-- {
				ps = append(ps, randEED(rng, false))
			}
			lead := len(respBytes(ps))
			ps = append(ps, encRetStat(int32(d)), encMsg(1, 5))
			if d%3 == 0 {
				ps = append(ps, randEED(rng, false))
			}
			ps = append(ps, encRetStat(int32(d+1)), encDone(tokDone, pick(rng, 0, 0x10), 0, 1))
			resp := respBytes(ps)
			r.resp(1, ps)
			if err := r.runDirect(1, resp, nil, "ref", true, 1, 1); err != nil {
				return err
			}
			script := []string{"cont", "cont", "cont", "cont", "cont", "cont"}
			script[d%4] = "err"
			r.lazy = 1
			err := r.runUntil(1, resp, []int{lead}, true, 1, 1, script, -1)
			r.lazy = 0
			if err != nil {
				return err
			}
		}
	}

	if *nuntil > 0 {
		// a long response (more packages than any "reasonable" bound on what is skipped) abandoned at its start
		// and drained by the library, then the next response: nothing of the first one is left for the second
		tr.Reset(map[string]interface{}{"driver": "until-long", "seed": *seed})
		var ps []wPkg
		for k := 0; k < 1100; k++ {
			ps = append(ps, encRetStat(int32(k)))
		}
		ps = append(ps, encDone(tokDone, 0, 0, 1))
		resp := respBytes(ps)
		r.resp(1, ps)
		if err := r.runDirect(1, resp, nil, "ref", true, 0, 0); err != nil {
			return err
		}
		if err := r.runUntil(1, resp, []int{len(resp) / 2}, true, 0, 0, []string{"err"}, -1); err != nil {
			return err
		}
		ps2 := []wPkg{encRetStat(77), encDone(tokDone, 0, 0, 1)}
		r.resp(2, ps2)
		if err := r.runDirect(2, respBytes(ps2), nil, "ref", false, 0, 0); err != nil {
			return err
		}
		if err := r.runUntil(2, respBytes(ps2), nil, false, 0, 0, []string{"cont", "cont"}, -1); err != nil {
			return err
		}
	}
	outs := []string{"cont", "cont", "cont", "cont", "stop", "eof", "err"}
	for i := 0; i < *nuntil; i++ {
		if r.lates >= 6 {
			break // enough calls ran into the watchdog: the trace so far decides
		}
		tr.Reset(map[string]interface{}{"driver": "until", "seed": *seed, "i": i})
		nr := 2 + rng.Intn(3)
		var resps [][]wPkg
		for k := 0; k < nr; k++ {
			ps := randResponse(rng, 30, 0)
			if k > 0 && rng.Intn(6) == 0 {
				ps = quietResponse(rng)
			}
			resps = append(resps, ps)
			r.resp(k+1, ps)
			if err := r.runDirect(k+1, respBytes(ps), nil, "ref", true, 1, 1); err != nil {
				return err
			}
		}
		for k, ps := range resps {
			resp := respBytes(ps)
			cs := randCuts(rng, rng.Intn(4), len(resp))
			if rng.Intn(4) == 0 {
				cs = withEmpty(rng, cs, len(resp))
			}
			var script []string
			for j := 0; j < len(ps)+2; j++ {
				script = append(script, outs[rng.Intn(len(outs))])
			}
			nilAt := -1
			if rng.Intn(5) == 0 {
				nilAt = rng.Intn(2)
			}
			r.lazy = 0
			if rng.Intn(4) == 0 && nilAt < 0 {
				r.lazy = 1 + rng.Intn(3)
			}
			err := r.runUntil(k+1, resp, cs, k == 0, b2i(k == 0)*(1+rng.Intn(2)), b2i(k == 0), script, nilAt)
			r.lazy = 0
			if err != nil {
				return err
			}
		}
	}

	// C14, order: a consumer that is calling NextPackage at the very moment the last complete packet and
	// the failure arrive must still get the packet's packages before the error (the error of the
	// connection and the queued package can both be ready in NextPackage's select)
	if *nerrorder > 0 {
		overtaken, lost := 0, 0
		one := encRetStat(7).Bytes
		for t := 0; t < *nerrorder; t++ {
			if err := r.fresh(true, 0); err != nil {
				return err
			}
			ch, mc := r.ch, r.mc
			res := make(chan string, 1)
			go func() {
				first := ""
				got := 0
				deadline := time.Now().Add(2 * time.Second)
				for time.Now().Before(deadline) {
					pkg, err := ch.NextPackage(context.Background(), false)
					switch {
					case err == nil && pkg != nil:
						got++
						if first == "" {
							first = "pkg"
						}
					case errors.Is(err, tds.ErrNoPackageReady):
						if first == "err" {
							// nothing more queued behind the error
							if got == 0 {
								res <- "lost"
							} else {
								res <- "overtaken"
							}
							return
						}
						if got > 0 {
							// wait for the error that must follow
							continue
						}
					default:
						if first == "" {
							first = "err"
							continue // is the package still queued behind it?
						}
						if first == "pkg" {
							res <- "ok"
							return
						}
					}
				}
				res <- "timeout:" + first
			}()
			time.Sleep(time.Duration(rng.Intn(300)) * time.Microsecond)
			mc.mu.Lock()
			mc.idleErr = io.EOF
			mc.rq = append(mc.rq, readItem{data: mkPacket(4, 1, 0, 0, one)})
			mc.mu.Unlock()
			mc.cond.Broadcast()
			switch v := <-res; v {
			case "overtaken":
				overtaken++
			case "lost":
				lost++
			case "ok":
			default:
				lost++ // neither order was observed within the bound
			}
			mc.Close()
			if lost >= 5 {
				break // enough evidence (every further trial would wait for its bound as well)
			}
		}
		tr.Reset(map[string]interface{}{"driver": "errorder", "seed": *seed})
		tr.Emit(Ev{"ev": "ErrOrder", "n": *nerrorder, "overtaken": overtaken, "lost": lost})
	}

	for i := 0; i < *nfail; i++ {
		if r.lates >= 6 {
			break // enough calls ran into the watchdog: the trace so far decides
		}
		ps := randResponse(rng, 12, 0)
		resp := respBytes(ps)
		n := len(resp)
		tr.Reset(map[string]interface{}{"driver": "fail", "seed": *seed, "i": i})
		r.resp(1, ps)
		if err := r.runDirect(1, resp, nil, "ref", true, 1, 1); err != nil {
			return err
		}
		var cs []int
		for j := rng.Intn(3); j > 0; j-- {
			cs = append(cs, 1+rng.Intn(n-1))
		}
		cs = uniq(sortInts(cs))
		if i%3 == 2 {
			cs = withEmpty(rng, cs, n)
		}
		total := n + 8*(len(cs)+1)
		kinds := []string{"eof", "reset", "timeout", "eofdata", "resetdata", "closed", "closedpipe"}
		for off := 0; off <= total; off++ {
			if *failStep > 1 && off%*failStep != i%*failStep && off != total {
				continue
			}
			kind := kinds[(off+i)%len(kinds)]
			var chunks []int
			if rng.Intn(2) == 0 {
				left := off
				for left > 0 && len(chunks) < 5 {
					c := 1 + rng.Intn(left)
					chunks = append(chunks, c)
					left -= c
				}
			}
			r.logical = (off+i)%3 == 1 // the consumer sits on a logical channel
			err := r.runFail(1, ps, cs, off, kind, *failTimeout, chunks)
			r.logical = false
			if err != nil {
				return err
			}
			if r.lates >= 3 { // enough evidence that errors arrive late or never: do not wait for every offset
				break
			}
		}
	}

	if err := tr.Close(); err != nil {
		return err
	}
	writeSummary(*out+".summary.json", map[string]interface{}{
		"responses": r.resps, "runs": r.runs, "recvs": r.recvs, "kinds": r.kinds})
	_ = io.EOF
	return nil
}

func sumInts(s []int) int {
	t := 0
	for _, v := range s {
		t += v
	}
	return t
}

func uniq(s []int) []int {
	var o []int
	for i, v := range s {
		if i == 0 || v != s[i-1] {
			o = append(o, v)
		}
	}
	return o
}

func sortInts(s []int) []int { sort.Ints(s); return s }
func b2i(b bool) int {
	if b {
		return 1
	}
	return 0
}
