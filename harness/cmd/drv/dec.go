package main

import (
	"flag"
	"math/big"
	"math/rand"
	"strings"

	"github.com/SAP/go-dblib/asetypes"
)

func init() { families["dec"] = decMain }

func digitsOf(i *big.Int) []int {
	s := new(big.Int).Abs(i).String()
	if s == "0" {
		return []int{}
	}
	d := make([]int, len(s))
	for k, c := range s {
		d[k] = int(c - '0')
	}
	return d
}

func digitStr(d []int) string {
	if len(d) == 0 {
		return "0"
	}
	var sb strings.Builder
	for _, x := range d {
		sb.WriteByte(byte('0' + x))
	}
	return sb.String()
}

var decHist int

func decFmt(tr *Tracer, p, s int, neg bool, ds []int) {
	ev := Ev{"ev": "Fmt", "p": p, "s": s, "neg": neg && len(ds) > 0, "ds": ds, "text": []int{}, "panic": false,
		"backok": false, "backneg": false, "backds": []int{}, "cmp": false}
	func() {
		defer func() {
			if recover() != nil {
				ev["panic"] = true
			}
		}()
		dec, err := asetypes.NewDecimal(p, s)
		if err != nil {
			ev["panic"] = true
			return
		}
		v, _ := new(big.Int).SetString(digitStr(ds), 10)
		// the text is a function of the value, whatever was asked of the decimal before: formatted
		// before it got its value, between value and sign, twice
		decHist++
		if decHist%4 == 1 {
			_ = dec.String()
		}
		dec.SetBytes(v.Bytes())
		if decHist%4 == 2 {
			_ = dec.String()
		}
		if neg && len(ds) > 0 {
			dec.Negate()
		}
		if decHist%4 == 3 {
			_ = dec.String()
		}
		text := dec.String()
		ev["text"] = ints([]byte(text))
		back, err := asetypes.NewDecimalString(p, s, text)
		if err == nil {
			ev["backok"] = true
			ev["backneg"] = back.IsNegative()
			ev["backds"] = digitsOf(back.Int())
			ev["cmp"] = dec.Cmp(*back) && back.Cmp(*dec)
		}
	}()
	tr.Emit(ev)
}

func decParse(tr *Tracer, p, s int, text string, via int) {
	ev := Ev{"ev": "Parse", "p": p, "s": s, "text": ints([]byte(text)), "ok": false, "neg": false, "ds": []int{}, "panic": false, "kept": true}
	func() {
		defer func() {
			if recover() != nil {
				ev["panic"] = true
			}
		}()
		var dec *asetypes.Decimal
		var err error
		if via == 0 {
			dec, err = asetypes.NewDecimalString(p, s, text)
		} else {
			dec, err = asetypes.NewDecimal(p, s)
			if err == nil {
				// the decimal holds a value already: an input that is rejected leaves it alone
				dec.SetInt64(7)
				err = dec.SetString(text)
				if err != nil {
					ev["kept"] = dec.Int().Cmp(big.NewInt(7)) == 0
				}
			}
		}
		if err == nil {
			ev["ok"] = true
			ev["neg"] = dec.IsNegative()
			ev["ds"] = digitsOf(dec.Int())
		}
	}()
	tr.Emit(ev)
}

func randDigits(rng *rand.Rand, n int) []int {
	if n == 0 {
		return []int{}
	}
	d := make([]int, n)
	for i := range d {
		d[i] = rng.Intn(10)
	}
	d[0] = 1 + rng.Intn(9)
	return d
}

func decMain(args []string) error {
	fs := flag.NewFlagSet("dec", flag.ExitOnError)
	out := fs.String("out", "dec.ndjson", "trace file")
	seed := fs.Int64("seed", 1, "seed")
	allPairs := fs.Bool("allpairs", false, "every (p,s) pair, else a sample plus all with p <= 6")
	per := fs.Int("per", 6, "random digit strings per pair")
	fs.Parse(args)
	tr, err := NewTracer(*out)
	if err != nil {
		return err
	}
	rng := rand.New(rand.NewSource(*seed))
	tr.Reset(map[string]interface{}{"driver": "dec-new"})
	for p := -2; p <= 41; p++ {
		for s := -2; s <= 41; s++ {
			_, err := asetypes.NewDecimal(p, s)
			tr.Emit(Ev{"ev": "New", "p": p, "s": s, "ok": err == nil})
			// the other constructor
			func() {
				ok := false
				defer func() {
					recover()
					tr.Emit(Ev{"ev": "New", "p": p, "s": s, "ok": ok})
				}()
				_, err2 := asetypes.NewDecimalString(p, s, "0")
				ok = err2 == nil
			}()
		}
	}
	n := 0
	for p := 1; p <= 38; p++ {
		for s := 0; s <= p; s++ {
			if !*allPairs && p > 6 && rng.Intn(6) != 0 && !(p == 38 || s == 0 || s == p) {
				continue
			}
			if n%12 == 0 {
				tr.Reset(map[string]interface{}{"driver": "dec", "p": p, "s": s})
			}
			n++
			// boundary values 0, 1, 10^k, 10^k - 1 for every k, both signs; random ones
			var cases [][]int
			cases = append(cases, []int{}, []int{1})
			for k := 1; k < p; k++ {
				pow := append([]int{1}, make([]int, k)...)
				cases = append(cases, pow)
			}
			for k := 1; k <= p; k++ {
				nines := make([]int, k)
				for i := range nines {
					nines[i] = 9
				}
				cases = append(cases, nines)
			}
			for i := 0; i < *per; i++ {
				cases = append(cases, randDigits(rng, 1+rng.Intn(p)))
			}
			// the binary boundaries of the unscaled integer: 2^k and its neighbours (machine words underneath)
			nBin := len(cases)
			for _, k := range []uint{7, 8, 15, 16, 31, 32, 63, 64, 127} {
				for d := -1; d <= 1; d++ {
					x := new(big.Int).Lsh(big.NewInt(1), k)
					x.Add(x, big.NewInt(int64(d)))
					if ds := digitsOf(x); len(ds) <= p {
						cases = append(cases, ds, ds) // once with each sign
					}
				}
			}
			for ci, ds := range cases {
				neg := rng.Intn(2) == 0
				if ci >= nBin {
					neg = (ci-nBin)%2 == 0
				}
				decFmt(tr, p, s, neg, ds)
				// text variants of the same number
				ip, fp := digitStr(ds), ""
				if s > 0 {
					full := strings.Repeat("0", p-len(ds)) + digitStr(ds)
					if len(ds) == 0 {
						full = strings.Repeat("0", p)
					}
					ip, fp = strings.TrimLeft(full[:p-s], "0"), full[p-s:]
					if ip == "" {
						ip = "0"
					}
				}
				sign := ""
				if neg {
					sign = "-"
				}
				base := sign + ip
				if fp != "" {
					base += "." + fp
				}
				variants := []string{base, "  " + base + " ", sign + "00" + ip + "." + fp, base + "0", sign + ip + "." + fp + "00",
					"+" + ip, ip + ".", "." + fp, base + ".1", base + "e1", sign + ip + " ." + fp, strings.Replace(base, ".", "..", 1),
					sign + ip + "." + fp + "5", sign + "1" + strings.Repeat("0", p-s) + "." + fp, base + "_", "- " + ip}
				for k := 0; k < 5; k++ {
					decParse(tr, p, s, variants[rng.Intn(len(variants))], rng.Intn(2))
				}
				if p <= 6 {
					for _, v := range variants {
						decParse(tr, p, s, v, rng.Intn(2))
					}
				}
			}
			// random strings over a small alphabet
			alpha := "0123456789.-+ e_x"
			for i := 0; i < 12; i++ {
				b := make([]byte, rng.Intn(p+4))
				for j := range b {
					if rng.Intn(3) == 0 {
						b[j] = alpha[rng.Intn(len(alpha))]
					} else {
						b[j] = byte('0' + rng.Intn(10))
					}
				}
				decParse(tr, p, s, string(b), rng.Intn(2))
			}
		}
	}
	return tr.Close()
}
