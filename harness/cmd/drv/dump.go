package main

import (
	"crypto/sha1"
	"encoding/hex"
	"fmt"
	"math"
	"reflect"
	"sort"
	"strings"
)

// dumpPkg renders a value canonically and completely: the Go type names and every field value
// (exported or not), following pointers and interfaces, with map keys sorted. It is the
// abstraction function for "the same package with the same field values" (R3): two packages
// have equal dumps iff all their fields are equal.
func dump(x interface{}) string {
	var sb strings.Builder
	walk(&sb, reflect.ValueOf(x), 0)
	return sb.String()
}

func dumpHash(x interface{}) string {
	h := sha1.Sum([]byte(dump(x)))
	return hex.EncodeToString(h[:8])
}

func walk(sb *strings.Builder, v reflect.Value, depth int) {
	if depth > 24 {
		sb.WriteString("<depth>")
		return
	}
	if !v.IsValid() {
		sb.WriteString("nil")
		return
	}
	switch v.Kind() {
	case reflect.Ptr:
		if v.IsNil() {
			sb.WriteString("nil")
			return
		}
		if v.Type().String() == "*time.Location" {
			sb.WriteString("<loc>")
			return
		}
		sb.WriteString("&")
		walk(sb, v.Elem(), depth+1)
	case reflect.Interface:
		if v.IsNil() {
			sb.WriteString("nil")
			return
		}
		walk(sb, v.Elem(), depth+1)
	case reflect.Struct:
		sb.WriteString(v.Type().String())
		sb.WriteString("{")
		for i := 0; i < v.NumField(); i++ {
			sb.WriteString(v.Type().Field(i).Name)
			sb.WriteString(":")
			walk(sb, v.Field(i), depth+1)
			sb.WriteString(",")
		}
		sb.WriteString("}")
	case reflect.Slice, reflect.Array:
		if v.Kind() == reflect.Slice && v.IsNil() {
			sb.WriteString("[]")
			return
		}
		if v.Type().Elem().Kind() == reflect.Uint8 {
			sb.WriteString("x")
			for i := 0; i < v.Len(); i++ {
				fmt.Fprintf(sb, "%02x", v.Index(i).Uint())
			}
			return
		}
		sb.WriteString("[")
		for i := 0; i < v.Len(); i++ {
			walk(sb, v.Index(i), depth+1)
			sb.WriteString(",")
		}
		sb.WriteString("]")
	case reflect.Map:
		keys := v.MapKeys()
		strs := make([]string, len(keys))
		for i, k := range keys {
			var kb, vb strings.Builder
			walk(&kb, k, depth+1)
			walk(&vb, v.MapIndex(k), depth+1)
			strs[i] = kb.String() + "=>" + vb.String()
		}
		sort.Strings(strs)
		sb.WriteString("map[" + strings.Join(strs, ";") + "]")
	case reflect.String:
		fmt.Fprintf(sb, "%q", v.String())
	case reflect.Bool:
		fmt.Fprintf(sb, "%v", v.Bool())
	case reflect.Int, reflect.Int8, reflect.Int16, reflect.Int32, reflect.Int64:
		fmt.Fprintf(sb, "%d", v.Int())
	case reflect.Uint, reflect.Uint8, reflect.Uint16, reflect.Uint32, reflect.Uint64, reflect.Uintptr:
		fmt.Fprintf(sb, "%d", v.Uint())
	case reflect.Float32, reflect.Float64:
		fmt.Fprintf(sb, "f%x", math.Float64bits(v.Float()))
	case reflect.Func, reflect.Chan, reflect.UnsafePointer:
		sb.WriteString("<" + v.Kind().String() + ">")
	default:
		fmt.Fprintf(sb, "<%s>", v.Kind())
	}
}
