package main

import (
	"bytes"
	"context"
	"crypto/ecdsa"
	"crypto/ed25519"
	"crypto/elliptic"
	"crypto/rand"
	"crypto/rsa"
	"crypto/sha1"
	"crypto/x509"
	"encoding/binary"
	"encoding/json"
	"encoding/pem"
	"flag"
	"fmt"
	mrand "math/rand"
	"os"
	"strings"
	"sync"
	"time"

	"github.com/SAP/go-dblib/tds"
)

func init() { families["login"] = loginMain }

type absPkg struct {
	T string `json:"t"`
	A string `json:"a"`
}

type loginScn struct {
	Flow    string   `json:"flow"`
	Script  []absPkg `json:"script"`
	Verdict string   `json:"verdict"`
	Model   string   `json:"model,omitempty"` // outcome of the code-shaped step model LoginFlow.tla for this script
	// concretisation parameters
	KeyBits  int      `json:"keybits"`
	NonceLen int      `json:"noncelen"`
	Pw       string   `json:"pw"`
	User     string   `json:"user"`
	RemNames []string `json:"remnames"`
	RemPws   []string `json:"rempws"`
	Cut      int64    `json:"cut"` // seed of the packetisation of the server's messages
	PktMode  string   `json:"pktmode,omitempty"` // "pkg": every package of a server message in a packet of its own, the packets a few ms apart
}

// conformance of the step model LoginFlow.tla: scripts with a model outcome, and how many differ
var loginModelled, loginDrift int
var loginDriftSamples []string

var loginKeys = map[int]*rsa.PrivateKey{}

func loginKey(bits int) *rsa.PrivateKey {
	if k, ok := loginKeys[bits]; ok {
		return k
	}
	k, err := rsa.GenerateKey(rand.Reader, bits)
	if err != nil {
		panic(err)
	}
	loginKeys[bits] = k
	return k
}

const announcedPackSize = 2048

var peerReqCaps = []int{1, 2, 3, 5, 8, 13, 21, 34, 55, 89, 100, 108}
var peerResCaps = []int{1, 4, 9, 16, 25, 36}

// the scripted server side of one login
type loginPeer struct {
	feedMu sync.Mutex
	mc       *memConn
	rng      *mrand.Rand
	scn      *loginScn
	msgs     [][]absPkg
	mu       sync.Mutex
	buf      []byte   // client bytes not yet parsed into packets
	cur      []byte   // body of the client message being received
	client   [][]byte // complete client messages (bodies)
	allBytes []byte   // every byte the client wrote
	nonce    []byte
	lastFmt  string
	sent     int
}

func splitMsgs(s []absPkg) [][]absPkg {
	var ms [][]absPkg
	var cur []absPkg
	for _, e := range s {
		if e.T == "eom" {
			if len(cur) > 0 {
				ms = append(ms, cur)
			}
			cur = nil
			continue
		}
		cur = append(cur, e)
	}
	return ms
}

func (p *loginPeer) fmtCols(a string) []wCol {
	switch a {
	case "2":
		return []wCol{{dt: 0x38}, {dt: 0xE1}}
	case "4":
		return []wCol{{dt: 0x38}, {dt: 0xE1}, {dt: 0xE1}, {dt: 0xE1}}
	case "badtype":
		return []wCol{{dt: 0x26}, {dt: 0xE1}, {dt: 0xE1}}
	case "vbnonce": // the nonce announced (and sent) as VARBINARY instead of LONGBINARY
		return []wCol{{dt: 0x38}, {dt: 0xE1}, {dt: 0x25}}
	}
	return []wCol{{dt: 0x38}, {dt: 0xE1}, {dt: 0xE1}}
}

func (p *loginPeer) keyBytes(a string) []byte {
	key := loginKey(p.scn.KeyBits)
	pk1 := pem.EncodeToMemory(&pem.Block{Type: "RSA PUBLIC KEY", Bytes: x509.MarshalPKCS1PublicKey(&key.PublicKey)})
	switch a {
	case "notpem":
		return []byte("this is not a PEM block at all, just text")
	case "notpkcs1":
		b, _ := x509.MarshalPKIXPublicKey(&key.PublicKey)
		return pem.EncodeToMemory(&pem.Block{Type: "PUBLIC KEY", Bytes: b})
	case "trailing":
		return append(pk1, []byte("trailing junk")...)
	case "emptykey":
		return []byte{}
	case "wskey":
		return []byte("\n \t\r\n\x00 \n")
	case "pkixec": // a well-formed PKIX public key that is not an RSA key
		k, err := ecdsa.GenerateKey(elliptic.P256(), rand.Reader)
		if err != nil {
			return []byte{}
		}
		b, _ := x509.MarshalPKIXPublicKey(&k.PublicKey)
		return pem.EncodeToMemory(&pem.Block{Type: []string{"PUBLIC KEY", "RSA PUBLIC KEY"}[p.rng.Intn(2)], Bytes: b})
	case "pkixed":
		seed := make([]byte, ed25519.SeedSize)
		p.rng.Read(seed)
		b, _ := x509.MarshalPKIXPublicKey(ed25519.NewKeyFromSeed(seed).Public())
		return pem.EncodeToMemory(&pem.Block{Type: []string{"PUBLIC KEY", "RSA PUBLIC KEY"}[p.rng.Intn(2)], Bytes: b})
	}
	return pk1
}

// capsAnswer: the capabilities the peer grants in its CAPABILITY answer of kind a (nil: the block
// has a mask of length 0)
func capsAnswer(a string) (req, res []int) {
	switch a {
	case "subset":
		return []int{1, 2, 3}, []int{4}
	case "emptyres":
		return peerReqCaps, nil
	case "emptyreq":
		return nil, peerResCaps
	case "zero":
		return []int{}, []int{}
	}
	return peerReqCaps, peerResCaps
}

func (p *loginPeer) encode(e absPkg) []byte {
	switch e.T {
	case "ack":
		st := map[string]int{"succeed": 5, "fail": 6, "negotiate": 7, "succeedx": 0x85, "negotiatex": 0x87}[e.A]
		return encLoginAck(st, [4]byte{5, 0, 0, 0}, "ASE", [4]byte{16, 0, 3, 0}).Bytes
	case "msg":
		id := map[string]int{"enc4": 35, "enc3": 30, "other": 12}[e.A]
		return encMsg(1, id).Bytes
	case "fmt":
		p.lastFmt = e.A
		return encFmt(p.rng, tokParamFmt, p.fmtCols(e.A), fmtOpts{narrowL2: true}).Bytes
	case "params":
		cols := p.fmtCols(p.lastFmt)
		w := &wbuf{}
		w.u8(tokParams)
		for i, c := range cols {
			switch {
			case c.dt == 0x38:
				v := uint32(1)
				switch e.A {
				case "cipher2":
					v = 2
				case "cipher3":
					v = 3
				case "cipher257":
					v = 257
				case "cipherneg":
					v = 0xFFFFFFFF
				}
				w.u32(v)
			case c.dt == 0x26:
				w.u8(4)
				w.u32(1)
			case i == 1:
				k := p.keyBytes(e.A)
				w.u32(uint32(len(k)))
				w.raw(k)
			case c.dt == 0x25:
				w.u8(len(p.nonce))
				w.raw(p.nonce)
			default:
				nonce := p.nonce
				if e.A == "smallkey" {
					// a well-formed RSA key that cannot carry this nonce together with the 32-byte session key
					// (RSA-OAEP/SHA-1: key bytes - 42): unusable, whatever the password's length
					nonce = make([]byte, p.scn.KeyBits/8-42-32+1+p.rng.Intn(8))
					p.rng.Read(nonce)
				}
				w.u32(uint32(len(nonce)))
				w.raw(nonce)
			}
		}
		return w.b
	case "done":
		st := 0
		if e.A == "more" {
			st = 1
		}
		return encDone(tokDone, st, 0, 0).Bytes
	case "caps":
		if e.A == "zero" {
			return encCapability([]int{1, 2}, map[int][]byte{1: make([]byte, 14), 2: make([]byte, 7)}).Bytes
		}
		req, res := capsAnswer(e.A)
		m := map[int][]byte{1: {}, 2: {}}
		if req != nil {
			m[1] = capMask(req)
		}
		if res != nil {
			m[2] = capMask(res)
		}
		return encCapability([]int{1, 2}, m).Bytes
	case "eed":
		return randEED(p.rng, e.A == "info").Bytes
	case "env":
		if e.A == "packsize" {
			return encEnv([][3]string{{"\x04", itoa(announcedPackSize), "512"}}).Bytes
		}
		return encEnv([][3]string{{"\x01", "master", "tempdb"}}).Bytes
	}
	return encRetStat(7).Bytes
}

// onWrite is called for every client write: collect packets; when a client message is complete
// (EOM) answer with the next server message.
func (p *loginPeer) onWrite(b []byte) {
	p.mu.Lock()
	p.allBytes = append(p.allBytes, b...)
	p.buf = append(p.buf, b...)
	var toSend [][]byte
	var toSendPkgs [][][]byte
	for len(p.buf) >= 8 {
		hl := int(binary.BigEndian.Uint16(p.buf[2:4]))
		if hl < 8 || hl > len(p.buf) {
			break
		}
		p.cur = append(p.cur, p.buf[8:hl]...)
		eom := p.buf[1]&1 == 1
		p.buf = p.buf[hl:]
		if eom {
			p.client = append(p.client, p.cur)
			p.cur = nil
			if p.sent < len(p.msgs) {
				var body []byte
				var pkgs [][]byte
				for _, e := range p.msgs[p.sent] {
					enc := p.encode(e)
					body = append(body, enc...)
					pkgs = append(pkgs, enc)
				}
				p.sent++
				toSend = append(toSend, body)
				toSendPkgs = append(toSendPkgs, pkgs)
			}
		}
	}
	p.mu.Unlock()
	for mi, body := range toSend {
		if p.scn.PktMode == "pkg" {
			// one packet per package (longer ones continue in further packets), a pause between packets:
			// the client asks for the next package before it has arrived
			pkgs := toSendPkgs[mi]
			go func() { // not inside the client's Write call: the client is reading while the packets arrive
				// a server finishes one message before it starts the next (the client may reply early)
				p.feedMu.Lock()
				defer p.feedMu.Unlock()
				for pi, enc := range pkgs {
					for len(enc) > 0 {
						n := len(enc)
						if n > 504 {
							n = 504
						}
						st := 0
						if pi == len(pkgs)-1 && n == len(enc) {
							st = 1
						}
						p.mc.Feed(mkPacket(4, st, 0, 0, enc[:n]))
						enc = enc[n:]
						time.Sleep(3 * time.Millisecond)
					}
				}
			}()
			continue
		}
		// random packetisation, packets of at most 512-8 body bytes
		for len(body) > 0 {
			n := 1 + p.rng.Intn(504)
			if p.rng.Intn(3) == 0 {
				n = 504
			}
			if n > len(body) {
				n = len(body)
			}
			st := 0
			if n == len(body) {
				st = 1
			}
			pk := mkPacket(4, st, 0, 0, body[:n])
			// and a random read partition of that packet
			if p.rng.Intn(3) == 0 && len(pk) > 2 {
				c := 1 + p.rng.Intn(len(pk)-1)
				p.mc.Feed(pk[:c])
				p.mc.Feed(pk[c:])
			} else {
				p.mc.Feed(pk)
			}
			body = body[n:]
		}
	}
}

const (
	offPwSlot   = 62
	offPwLen    = 92
	offRemPw    = 202
	offRemPwLen = 457
	offSecLogin = 514
	loginRecLen = 568
)

// legitimate text slots of the login record (offset, slot length) - masked before scanning
var loginTextSlots = [][2]int{{0, 31}, {31, 31}, {93, 31}, {140, 31}, {171, 31}, {462, 11}, {480, 31}, {525, 31}, {557, 7}}

func runLogin(tr *Tracer, rng *mrand.Rand, scn *loginScn) {
	desc := *scn
	tr.Reset(desc)
	mc := newMemConn()
	info := newInfo()
	info.PacketReadTimeout = 1
	info.Username = scn.User
	info.Password = scn.Pw
	info.Host = "dbhost"
	info.ClientHostname = "client7"
	conn, err := tds.NewConnWithTransport(context.Background(), mc, info, true)
	if err != nil {
		panic(err)
	}
	ch, err := conn.NewChannel()
	if err != nil {
		panic(err)
	}
	peer := &loginPeer{mc: mc, rng: mrand.New(mrand.NewSource(scn.Cut)), scn: scn, msgs: splitMsgs(scn.Script)}
	peer.nonce = make([]byte, scn.NonceLen)
	rand.Read(peer.nonce)
	mc.onWrite = peer.onWrite

	var cfgErrText string
	// "the default configuration" whatever else the connection information says: transport encryption,
	// its host name, the network - none of them is a reason to send a password in clear
	cinfo := *info
	switch scn.Cut % 3 {
	case 1:
		cinfo.TLSEnable, cinfo.TLSHostname = true, "db.example.org"
	case 2:
		cinfo.TLSEnable, cinfo.TLSSkipValidation = true, true
	}
	cfg, err := tds.NewLoginConfig(&cinfo)
	if err != nil {
		cfgErrText = err.Error()
	}
	if scn.Flow == "plain" {
		cfg.Encrypt = 0
	}
	// history of the configuration object: every fourth encrypted scenario uses a LoginConfig that has been
	// through a plain login before (an application that falls back and then switches encryption on again);
	// what the judged login writes must not depend on it (seeded change C09-n: a cached login record)
	warmed := false
	if cfg != nil && scn.Flow != "plain" && scn.Cut%4 == 0 {
		warmed = true
		warmLoginConfig(cfg, info)
	}
	for i := range scn.RemNames {
		cfg.RemoteServers = append(cfg.RemoteServers, tds.LoginConfigRemoteServer{Name: scn.RemNames[i], Password: scn.RemPws[i]})
	}
	script := make([][]string, len(scn.Script))
	for i, e := range scn.Script {
		script[i] = []string{e.T, e.A}
	}
	_ = script
	tr.Emit(Ev{"ev": "Login", "flow": scn.Flow, "script": scn.Script, "nrem": len(scn.RemNames), "keybits": scn.KeyBits,
		"noncelen": scn.NonceLen, "pwlen": len(scn.Pw), "warmcfg": warmed})

	deadline := 400 * time.Millisecond
	ctx, cancel := context.WithTimeout(context.Background(), deadline)
	defer cancel()
	type res struct {
		err error
		pan interface{}
	}
	done := make(chan res, 1)
	start := time.Now()
	go func() {
		defer func() {
			if r := recover(); r != nil {
				done <- res{pan: r}
			}
		}()
		done <- res{err: ch.Login(ctx, cfg)}
	}()
	outcome := ""
	var lerr error
	select {
	case r := <-done:
		switch {
		case r.pan != nil:
			outcome = "panic"
			lerr = fmt.Errorf("%v", r.pan)
		case r.err != nil:
			outcome = "error"
			lerr = r.err
		default:
			outcome = "success"
		}
	case <-time.After(deadline + 3*time.Second):
		outcome = "outlived"
	}
	ms := int(time.Since(start).Milliseconds())

	capsOK := false
	if outcome == "success" && conn.Caps != nil {
		capsOK = true
		func() {
			defer func() {
				if recover() != nil {
					capsOK = false
				}
			}()
			in := func(s []int, c int) bool {
				for _, x := range s {
					if x == c {
						return true
					}
				}
				return false
			}
			// the capability set must be the one of a CAPABILITY answer the script contains
			capsOK = false
			for _, e := range scn.Script {
				if e.T != "caps" {
					continue
				}
				req, res := capsAnswer(e.A)
				same := true
				for c := 0; c <= 110; c++ {
					if conn.Caps.HasRequestCapability(tds.RequestCapability(c)) != in(req, c) {
						same = false
					}
				}
				for c := 0; c <= 50; c++ {
					if conn.Caps.HasResponseCapability(tds.ResponseCapability(c)) != in(res, c) {
						same = false
					}
				}
				capsOK = capsOK || same
			}
		}()
	}
	errText := ""
	if lerr != nil {
		errText = lerr.Error()
		if len(errText) > 200 {
			errText = errText[:200]
		}
	}
	if scn.Model != "" {
		loginModelled++
		if outcome != scn.Model {
			loginDrift++
			if len(loginDriftSamples) < 5 {
				b, _ := json.Marshal(scn.Script)
				loginDriftSamples = append(loginDriftSamples, scn.Flow+" "+string(b)+" model="+scn.Model+" code="+outcome)
			}
		}
	}
	tr.Emit(Ev{"ev": "Result", "outcome": outcome, "ms": ms, "capsok": capsOK, "ps": conn.PacketSize(),
		"announced": announcedPackSize, "errtext": errText})

	// ---------------- C09 observations, from the bytes the client wrote
	peer.mu.Lock()
	client := peer.client
	all := append([]byte(nil), peer.allBytes...)
	peer.mu.Unlock()
	secrets := [][]byte{[]byte(scn.Pw)}
	for _, p := range scn.RemPws {
		secrets = append(secrets, []byte(p))
	}
	if len(client) >= 1 && len(client[0]) >= loginRecLen {
		rec := client[0]
		n := int(rec[offPwLen])
		slotEmpty := n == 0 && bytes.Equal(rec[offPwSlot:offPwSlot+30], make([]byte, 30))
		slotClear := n == len(scn.Pw) && n <= 30 && string(rec[offPwSlot:offPwSlot+n]) == scn.Pw
		rempwEmpty := rec[offRemPwLen] == 0 && bytes.Equal(rec[offRemPw:offRemPw+255], make([]byte, 255))
		tr.Emit(Ev{"ev": "LoginRec", "slotempty": slotEmpty, "slotclear": slotClear, "seclogin": int(rec[offSecLogin]), "rempwempty": rempwEmpty})
	}
	// scan every written byte for the secrets, with the legitimate text slots of the login
	// record masked (another configured field may legitimately have the same text)
	masked := append([]byte(nil), all...)
	if len(client) >= 1 {
		// the login record starts at byte 8 of the stream; packets are 512 bytes: mask in the
		// reassembled body instead and scan body + later messages
		body := append([]byte(nil), client[0]...)
		for _, s := range loginTextSlots {
			if s[0]+s[1] <= len(body) {
				copy(body[s[0]:s[0]+s[1]], make([]byte, s[1]))
			}
		}
		masked = body
		for _, m := range client[1:] {
			masked = append(masked, m...)
		}
	}
	leakPw, leakRem := false, false
	for i, s := range secrets {
		if len(s) >= 4 && bytes.Contains(masked, s) {
			if i == 0 {
				leakPw = true
			} else {
				leakRem = true
			}
		}
	}
	errLeak := false
	for _, txt := range []string{cfgErrText, fmt.Sprint(lerr)} {
		for _, s := range secrets {
			if len(s) >= 4 && strings.Contains(txt, string(s)) && !strings.Contains(scn.User+" dbhost client7", string(s)) {
				errLeak = true
			}
		}
	}
	tr.Emit(Ev{"ev": "Scan", "pwclear": leakPw, "rempwclear": leakRem, "errleak": errLeak, "clientmsgs": len(client)})

	// the encrypted reply: MSG/PARAMFMT/PARAMS triples
	if len(client) >= 2 {
		key := loginKey(scn.KeyBits)
		cts := decodeLoginReply(client[1])
		seen := map[string]bool{}
		var keys [][]byte
		for _, c := range cts {
			pt, err := rsa.DecryptOAEP(sha1.New(), nil, key, c.ct, []byte{})
			ev := Ev{"ev": "Cipher", "msgid": c.msgid, "idx": c.idx, "name": c.name, "decrypts": err == nil, "nonceok": false,
				"class": "undecryptable", "fresh": !seen[string(c.ct)]}
			seen[string(c.ct)] = true
			if err == nil && len(pt) >= len(peer.nonce) && bytes.Equal(pt[:len(peer.nonce)], peer.nonce) {
				ev["nonceok"] = true
				x := pt[len(peer.nonce):]
				switch {
				case c.msgid == 31 && bytes.Equal(x, []byte(scn.Pw)):
					ev["class"] = "pw"
				case c.msgid == 32 && c.idx == 0 && bytes.Equal(x, []byte(scn.Pw)):
					ev["class"] = "rempw"
				case c.msgid == 32 && c.idx >= 1 && c.idx <= len(scn.RemPws) && bytes.Equal(x, []byte(scn.RemPws[c.idx-1])) && c.name == scn.RemNames[c.idx-1]:
					ev["class"] = "rempw"
				case c.msgid == 34 && len(x) == 32:
					ev["class"] = "key32"
					for _, k := range keys {
						if bytes.Equal(k, x) {
							ev["fresh"] = false
						}
					}
					keys = append(keys, x)
				default:
					ev["class"] = "other"
				}
			}
			tr.Emit(ev)
		}
		tr.Emit(Ev{"ev": "ReplyEnd", "n": len(cts)})
	}
	mc.Close()
}

// warmLoginConfig sends cfg through a plain login on a scratch connection whose peer never answers (the
// login gives up with its context), then restores the exported fields the caller had set.
func warmLoginConfig(cfg *tds.LoginConfig, info *tds.Info) {
	enc, rem := cfg.Encrypt, cfg.RemoteServers
	mc := newMemConn()
	defer mc.Close()
	conn, err := tds.NewConnWithTransport(context.Background(), mc, info, true)
	if err != nil {
		return
	}
	ch, err := conn.NewChannel()
	if err != nil {
		return
	}
	cfg.Encrypt = 0
	ctx, cancel := context.WithTimeout(context.Background(), 5*time.Millisecond)
	done := make(chan struct{})
	go func() {
		defer func() { recover(); close(done) }()
		ch.Login(ctx, cfg)
	}()
	select {
	case <-done:
	case <-time.After(2 * time.Second):
	}
	cancel()
	cfg.Encrypt, cfg.RemoteServers = enc, rem
}

// runLoginTwice: two encrypted logins on one connection (the server refuses the first after the
// credentials were sent, the client tries again): the session key of the second login is fresh, too.
func runLoginTwice(tr *Tracer, rng *mrand.Rand) {
	refused := []absPkg{{"ack", "negotiate"}, {"msg", "enc4"}, {"fmt", "3ok"}, {"params", "good"}, {"done", "final"}, {"eom", "x"},
		{"ack", "fail"}, {"done", "final"}, {"eom", "x"}}
	valid := []absPkg{{"ack", "negotiate"}, {"msg", "enc4"}, {"fmt", "3ok"}, {"params", "good"}, {"done", "final"}, {"eom", "x"},
		{"ack", "succeed"}, {"caps", "normal"}, {"done", "final"}, {"eom", "x"}}
	scn := &loginScn{Flow: "enc", Script: append(append([]absPkg{}, refused...), valid...), KeyBits: []int{1024, 2048}[rng.Intn(2)], NonceLen: 32,
		Pw: randSecret(rng, 8+rng.Intn(10)), User: "sa" + randName(rng, 4), Cut: rng.Int63()}
	tr.Reset(map[string]interface{}{"driver": "login-twice", "keybits": scn.KeyBits})
	mc := newMemConn()
	info := newInfo()
	info.Username, info.Password, info.Host, info.Port = scn.User, scn.Pw, "dbhost", "5000"
	conn, err := tds.NewConnWithTransport(context.Background(), mc, info, true)
	if err != nil {
		return
	}
	ch, err := conn.NewChannel()
	if err != nil {
		return
	}
	peer := &loginPeer{mc: mc, rng: mrand.New(mrand.NewSource(scn.Cut)), scn: scn, msgs: splitMsgs(scn.Script)}
	peer.nonce = make([]byte, scn.NonceLen)
	rand.Read(peer.nonce)
	mc.onWrite = peer.onWrite
	outcomes := []string{}
	for i := 0; i < 2; i++ {
		cfg, err := tds.NewLoginConfig(info)
		if err != nil {
			return
		}
		ctx, cancel := context.WithTimeout(context.Background(), 2*time.Second)
		func() {
			defer func() {
				if recover() != nil {
					outcomes = append(outcomes, "panic")
				}
			}()
			if err := ch.Login(ctx, cfg); err != nil {
				outcomes = append(outcomes, "error")
			} else {
				outcomes = append(outcomes, "success")
			}
		}()
		cancel()
	}
	peer.mu.Lock()
	client := peer.client
	peer.mu.Unlock()
	key := loginKey(scn.KeyBits)
	var keys [][]byte
	for _, m := range client {
		for _, c := range decodeLoginReply(m) {
			if c.msgid != 34 {
				continue
			}
			if pt, err := rsa.DecryptOAEP(sha1.New(), nil, key, c.ct, []byte{}); err == nil && len(pt) >= len(peer.nonce) {
				keys = append(keys, pt[len(peer.nonce):])
			}
		}
	}
	same := len(keys) == 2 && bytes.Equal(keys[0], keys[1])
	tr.Emit(Ev{"ev": "TwoLogins", "outcomes": outcomes, "keys": len(keys), "samekey": same})
	mc.Close()
}

type loginCT struct {
	msgid int
	idx   int
	name  string
	ct    []byte
}

// decodeLoginReply is the harness's own decoder for the client's encrypted reply:
// repeated MSG(id) PARAMFMT PARAMS.
func decodeLoginReply(b []byte) []loginCT {
	var out []loginCT
	msgid := 0
	var cols []byte
	defer func() { recover() }()
	for len(b) > 0 {
		switch b[0] {
		case tokMsg:
			msgid = int(binary.LittleEndian.Uint16(b[3:5]))
			b = b[5:]
		case tokParamFmt:
			l := int(binary.LittleEndian.Uint16(b[1:3]))
			f := b[3 : 3+l]
			b = b[3+l:]
			n := int(binary.LittleEndian.Uint16(f[0:2]))
			f = f[2:]
			cols = nil
			for i := 0; i < n; i++ {
				f = f[1+int(f[0]):] // name
				f = f[1:]           // status
				f = f[4:]           // usertype
				dt := f[0]
				f = f[1:]
				switch dt {
				case 0xE1:
					f = f[4:]
				case 0x27:
					f = f[1:]
				}
				f = f[1+int(f[0]):] // locale
				cols = append(cols, dt)
			}
		case tokParams:
			b = b[1:]
			name := ""
			idx := 0
			for _, dt := range cols {
				switch dt {
				case 0x27:
					n := int(b[0])
					name = string(b[1 : 1+n])
					b = b[1+n:]
				case 0xE1:
					n := int(binary.LittleEndian.Uint32(b[0:4]))
					out = append(out, loginCT{msgid: msgid, idx: idx, name: name, ct: append([]byte(nil), b[4:4+n]...)})
					b = b[4+n:]
					idx++
				}
			}
		default:
			return out
		}
	}
	return out
}

func loginMain(args []string) error {
	fs := flag.NewFlagSet("login", flag.ExitOnError)
	out := fs.String("out", "login.ndjson", "trace file")
	seed := fs.Int64("seed", 1, "seed")
	scnf := fs.String("scn", "", "scripts generated by TLC (Login.tla)")
	part := fs.Int("part", 0, "process index")
	parts := fs.Int("parts", 1, "number of processes sharing the scripts")
	nc09 := fs.Int("c09", 0, "random valid logins for the C09 observations")
	desc := fs.String("desc", "", "one scenario to replay")
	fs.Parse(args)
	tr, err := NewTracer(*out)
	if err != nil {
		return err
	}
	rng := mrand.New(mrand.NewSource(*seed + int64(*part)*7919))
	fill := func(s *loginScn) {
		s.KeyBits = []int{1024, 1536, 2048}[rng.Intn(3)]
		// nonce lengths: 1 .. what leaves room for the 32-byte session key (a zero-length
		// LONGBINARY is NULL on the wire, not a nonce)
		s.NonceLen = []int{1, 16, 32, 32, 60}[rng.Intn(5)]
		if s.KeyBits == 1024 && s.NonceLen > 32 {
			s.NonceLen = 32
		}
		if rng.Intn(4) == 0 {
			// the nonce that, together with the 32-byte session key, fills the key's capacity exactly
			// (RSA-OAEP/SHA-1: key bytes - 42)
			s.NonceLen = s.KeyBits/8 - 42 - 32
		}
		s.Pw = randSecret(rng, 1+rng.Intn(24))
		s.User = "sa" + randName(rng, 5)
		s.Cut = rng.Int63()
		if rng.Intn(4) == 0 {
			s.PktMode = "pkg"
		}
		for k := rng.Intn(3); k > 0; k-- {
			s.RemNames = append(s.RemNames, "SRV"+randName(rng, 4))
			s.RemPws = append(s.RemPws, randSecret(rng, 4+rng.Intn(12)))
		}
	}
	if *scnf != "" {
		b, err := os.ReadFile(*scnf)
		if err != nil {
			return err
		}
		var scns []loginScn
		if err := json.Unmarshal(b, &scns); err != nil {
			return err
		}
		for i := range scns {
			if i%*parts != *part {
				continue
			}
			fill(&scns[i])
			runLogin(tr, rng, &scns[i])
		}
	}
	if *desc != "" {
		var s loginScn
		if err := json.Unmarshal([]byte(*desc), &s); err != nil {
			return err
		}
		if s.KeyBits == 0 {
			fill(&s)
		}
		runLogin(tr, rng, &s)
	}
	validEnc := []absPkg{{"ack", "negotiate"}, {"msg", "enc4"}, {"fmt", "3ok"}, {"params", "good"}, {"done", "final"}, {"eom", "x"},
		{"ack", "succeed"}, {"caps", "normal"}, {"done", "final"}, {"eom", "x"}}
	validPlain := []absPkg{{"ack", "succeed"}, {"done", "final"}, {"eom", "x"}}
	for i := 0; i < *nc09; i++ {
		s := loginScn{Flow: "enc", Script: validEnc, Verdict: "S"}
		if i%5 == 4 {
			s = loginScn{Flow: "plain", Script: validPlain, Verdict: "S"}
		}
		fill(&s)
		// passwords: any bytes, length 0 .. key capacity (+1), colliding with other login fields
		capacity := s.KeyBits/8 - 42 - s.NonceLen
		switch rng.Intn(6) {
		case 0:
			s.Pw = ""
		case 1:
			s.Pw = s.User // collides with the user name
		case 2:
			s.Pw = "client7" // collides with the host name
		case 3:
			if s.Flow == "enc" {
				s.Pw = randSecret(rng, capacity)
			}
		case 4:
			if s.Flow == "enc" {
				s.Pw = randSecret(rng, capacity+1) // does not fit: must be an error that does not echo it
				s.Verdict = "F"
			}
		}
		if s.Flow == "plain" && len(s.Pw) > 30 {
			s.Pw = s.Pw[:30]
		}
		runLogin(tr, rng, &s)
	}
	if *nc09 > 0 && *part == 0 {
		for i := 0; i < 4; i++ {
			runLoginTwice(tr, rng)
		}
	}
	writeSummary(*out+".summary.json", map[string]interface{}{"modelled": loginModelled, "drift": loginDrift, "drift_samples": loginDriftSamples})
	return tr.Close()
}

func randSecret(rng *mrand.Rand, n int) string {
	if n < 0 {
		n = 0
	}
	b := make([]byte, n)
	for i := range b {
		if rng.Intn(4) == 0 {
			b[i] = byte(1 + rng.Intn(255))
		} else {
			b[i] = byte('!' + rng.Intn(90))
		}
	}
	// NUL bytes are bytes of a secret like any other (inside, in front, at the end) - in secrets long enough
	// that they cannot be mistaken for the zero padding of the login record when the written bytes are scanned
	if n >= 6 && rng.Intn(3) == 0 {
		b[[]int{0, n - 1, 1 + rng.Intn(n-2)}[rng.Intn(3)]] = 0
	}
	return string(b)
}
