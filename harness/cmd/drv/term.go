package main

// Driver for the statement splitter of the interactive terminal (term.ParseAndExecQueries; spec growth,
// no listed property).  The executor is a database/sql driver of the harness whose connections implement
// term.GenericExecer: it records every query it is given and fails at the k-th one.

import (
	"context"
	"database/sql"
	"database/sql/driver"
	"errors"
	"flag"
	"fmt"
	"math/rand"
	"sync"

	"github.com/SAP/go-dblib/term"
)

func init() { families["term"] = termMain }

type termExec struct {
	mu      sync.Mutex
	queries []string
	failAt  int
}

type termConnector struct{ x *termExec }
type termDriver struct{}
type termConn struct{ x *termExec }

func (c termConnector) Connect(context.Context) (driver.Conn, error) { return &termConn{c.x}, nil }
func (c termConnector) Driver() driver.Driver                        { return termDriver{} }
func (termDriver) Open(string) (driver.Conn, error)                  { return nil, errors.New("use the connector") }
func (c *termConn) Prepare(string) (driver.Stmt, error)              { return nil, errors.New("not supported") }
func (c *termConn) Close() error                                     { return nil }
func (c *termConn) Begin() (driver.Tx, error)                        { return nil, errors.New("not supported") }

// GenericExec implements term.GenericExecer.
func (c *termConn) GenericExec(_ context.Context, q string, _ []driver.NamedValue) (driver.Rows, driver.Result, error) {
	c.x.mu.Lock()
	defer c.x.mu.Unlock()
	c.x.queries = append(c.x.queries, q)
	if c.x.failAt > 0 && len(c.x.queries) == c.x.failAt {
		return nil, nil, errors.New("query refused")
	}
	return nil, nil, nil
}

func cps(s string) []int {
	out := []int{}
	for _, r := range s {
		out = append(out, int(r))
	}
	return out
}

func termCall(tr *Tracer, line string, failAt int) {
	x := &termExec{failAt: failAt}
	db := sql.OpenDB(termConnector{x})
	defer db.Close()
	st := "ok"
	var err error
	func() {
		defer func() {
			if r := recover(); r != nil {
				st = "panic"
			}
		}()
		err = term.ParseAndExecQueries(db, line)
	}()
	qs := [][]int{}
	for _, q := range x.queries {
		qs = append(qs, cps(q))
	}
	tr.Emit(Ev{"ev": "Split", "line": cps(line), "fail": failAt, "queries": qs, "err": err != nil, "st": st})
}

func termMain(args []string) error {
	fs := flag.NewFlagSet("term", flag.ExitOnError)
	out := fs.String("out", "term.ndjson", "trace file")
	seed := fs.Int64("seed", 1, "seed")
	maxLen := fs.Int("maxlen", 4, "all lines over the alphabet up to this length")
	count := fs.Int("count", 300, "random longer lines")
	fs.Parse(args)
	tr, err := NewTracer(*out)
	if err != nil {
		return err
	}
	rng := rand.New(rand.NewSource(*seed))
	alpha := []rune{'a', ';', '\'', '"', ' '}
	n := 0
	var rec func(prefix []rune)
	rec = func(prefix []rune) {
		if n%40 == 0 {
			tr.Reset(map[string]interface{}{"driver": "term", "group": fmt.Sprint(n / 40)})
		}
		n++
		termCall(tr, string(prefix), 0)
		if len(prefix) > 0 {
			termCall(tr, string(prefix), 1+rng.Intn(3))
		}
		if len(prefix) == *maxLen {
			return
		}
		for _, c := range alpha {
			rec(append(append([]rune(nil), prefix...), c))
		}
	}
	rec(nil)
	wide := []rune{'a', 'b', ';', ';', '\'', '"', ' ', '\n', '\t', 0xe9, 0x20ac, 0x1f600, '-', ';'}
	for i := 0; i < *count; i++ {
		if i%40 == 0 {
			tr.Reset(map[string]interface{}{"driver": "term", "group": "random"})
		}
		l := 1 + rng.Intn(40)
		rs := make([]rune, l)
		for j := range rs {
			rs[j] = wide[rng.Intn(len(wide))]
		}
		termCall(tr, string(rs), []int{0, 0, 1, 2, 3, 7}[rng.Intn(6)])
	}
	return tr.Close()
}
