package main

import (
	"bytes"
	"context"
	"encoding/json"
	"errors"
	"flag"
	"fmt"
	"io"
	"math/rand"
	"net"
	"os"
	"strconv"
	"time"

	"github.com/SAP/go-dblib/asetypes"
	"github.com/SAP/go-dblib/tds"
)

func init() { families["tx"] = txMain }

// txOp is one step of a transmit-side scenario (TxPath.tla / directed / random).
type txOp struct {
	Op   string `json:"op"`             // Size, Queue, Flush, Send, Type
	N    int    `json:"n,omitempty"`    // payload length (Queue/Send), header type (Type)
	Body int    `json:"body,omitempty"` // body size in force (model bookkeeping; Size: new body size)
	Npk  int    `json:"npk,omitempty"`  // model prediction: packets written by this step
	Kind string `json:"kind,omitempty"` // "" tokenless, "lang" LanguagePackage
	Ctx  string `json:"ctx,omitempty"`  // "cancelled": call with a cancelled context
}

type txRunner struct {
	chanN int // 0: channel 0, n > 0: the n-th logical channel (created through NewChannel with the peer's ack)
	tr    *Tracer
	mc    *memConn
	conn  *tds.Conn
	ch    *tds.Channel
	msg   []byte // bytes queued since the last completed flush (harness input)
	wired int    // body bytes seen on the wire since the last completed flush
	next  int    // pattern position
	drift int
	nmsg  int
	npkts int
	scn   int

	sizeOps     int
	setupFailed bool // the logical channel of this scenario could not be set up: its operations are skipped
	failing     bool // the transport has been told to fail (FailWrite)
	dead        bool // a call got stuck: the scenario is given up
}

func newInfo() *tds.Info {
	info := &tds.Info{}
	info.PacketReadTimeout = 1
	info.ChannelPackageQueueSize = 100
	return info
}

func (r *txRunner) reset(desc interface{}) error {
	if r.conn != nil {
		r.mc.Close()
	}
	r.mc = newMemConn()
	r.failing, r.dead = false, false
	reader := r.chanN > 0
	if reader {
		// the peer acknowledges logical channel setups (header-only PROTACK packet)
		mc := r.mc
		var buf []byte
		mc.onWrite = func(b []byte) {
			buf = append(buf, b...)
			for len(buf) >= 8 {
				hl := int(buf[2])<<8 | int(buf[3])
				if hl < 8 || hl > len(buf) {
					break
				}
				if buf[0] == 8 {
					mc.Feed(mkPacket(11, 1, int(buf[4])<<8|int(buf[5]), 3*int(buf[5])%256, nil))
				}
				buf = buf[hl:]
			}
		}
	}
	conn, err := tds.NewConnWithTransport(context.Background(), r.mc, newInfo(), reader)
	if err != nil {
		return err
	}
	ch, err := conn.NewChannel()
	if err != nil {
		return err
	}
	for i := 0; i < r.chanN; i++ {
		// (bounded: a setup whose acknowledgement never arrives - because the setup packet named another channel,
		// say - must not take the driver with it)
		type res struct {
			ch  *tds.Channel
			err error
		}
		rc := make(chan res, 1)
		go func() { c, e := conn.NewChannel(); rc <- res{c, e} }()
		select {
		case x := <-rc:
			ch, err = x.ch, x.err
		case <-time.After(5 * time.Second):
			ch, err = nil, errors.New("NewChannel did not return within 5 s although the peer acknowledges every setup packet it is sent")
		}
		if err != nil {
			// the peer acknowledged the setup: a refusal is an event for the specification (which has no step for it)
			r.conn = conn
			r.tr.Reset(desc)
			r.scn++
			r.tr.Emit(Ev{"ev": "ChanFailed", "text": err.Error()})
			r.setupFailed = true
			return nil
		}
	}
	r.setupFailed = false
	r.mc.TakeWrites() // the setup packets are not part of any message
	r.conn, r.ch = conn, ch
	r.msg, r.wired, r.next = nil, 0, 0
	r.tr.Reset(desc)
	r.scn++
	r.tr.Emit(Ev{"ev": "Chan", "id": ch.VerifChannelID(), "ps": conn.PacketSize(), "typ": int(ch.CurrentHeaderType), "nr": b2i(r.chanN > 0)})
	return nil
}

func (r *txRunner) failedWrites() int {
	r.mc.mu.Lock()
	defer r.mc.mu.Unlock()
	return r.mc.failedWrites
}

var errStuck = errors.New("the call did not return within the bound")

// call runs a send-side call of the library; once the transport has been told to fail, a call that does not come
// back within 3 s is reported as stuck (a failed write must surface as an error, C14) and the scenario is given up
func (r *txRunner) call(f func() error) error {
	if !r.failing {
		return f()
	}
	if r.dead {
		return errStuck
	}
	ch := make(chan error, 1)
	go func() { ch <- f() }()
	select {
	case err := <-ch:
		return err
	case <-time.After(3 * time.Second):
		r.dead = true
		r.mc.Close()
		return errStuck
	}
}

func errClass(err error) string {
	switch {
	case err == errStuck:
		return "stuck"
	case err == nil:
		return "ok"
	case errors.Is(err, context.Canceled), errors.Is(err, context.DeadlineExceeded):
		return "ctx"
	case errors.Is(err, tds.ErrChannelClosed):
		return "closed"
	}
	return "err"
}

// pattern bytes: pseudo-random with a long period, so that any lost, duplicated or moved run
// of bytes makes the content differ from the harness's own copy of the message.
func (r *txRunner) payload(n int) []byte {
	b := make([]byte, n)
	for i := range b {
		k := r.next + i
		b[i] = byte((k*131 + (k>>8)*31 + (k>>16)*7 + 17) % 251)
	}
	r.next += n
	return b
}

func (r *txRunner) wires() {
	ws := r.mc.TakeWrites()
	var stream []byte
	for _, w := range ws {
		stream = append(stream, w...)
	}
	pkts, rest := parsePackets(stream)
	for _, p := range pkts {
		clean := r.wired+len(p.Body) <= len(r.msg) && bytes.Equal(p.Body, r.msg[r.wired:r.wired+len(p.Body)])
		r.tr.Emit(Ev{"ev": "Wire", "typ": p.Typ, "status": p.Status, "eom": p.Status&1 == 1, "hlen": p.HLen,
			"n": len(p.Body), "chan": p.Chan, "nr": p.Nr, "win": p.Win, "off": r.wired, "clean": clean})
		r.wired += len(p.Body)
		r.npkts++
	}
	if len(rest) > 0 {
		r.tr.Emit(Ev{"ev": "WireGarbage", "n": len(rest)})
	}
}

func (r *txRunner) ctxFor(op txOp) context.Context {
	if op.Ctx == "cancelled" {
		c, cancel := context.WithCancel(context.Background())
		cancel()
		return c
	}
	return context.Background()
}

// paramPkgs builds a parameter format and its parameter data (the data package takes its layout from
// the package queued before it: Channel.lastPkgTx); the expected encodings come from writing equal
// packages into a queue of their own (the layouts themselves are C06's matter).
func (r *txRunner) paramPkgs(wide bool) (fpkg, ppkg tds.Package, fenc, penc []byte) {
	mk := func() (*tds.ParamFmtPackage, *tds.ParamsPackage) {
		var fmts []tds.FieldFmt
		var datas []tds.FieldData
		vals := []struct {
			dt asetypes.DataType
			v  interface{}
		}{{asetypes.INT4, int32(r.next)}, {asetypes.VARCHAR, fmt.Sprintf("v%d", r.next)}, {asetypes.LONGBINARY, []byte{1, 2, 3, byte(r.next)}}}
		for _, x := range vals[:1+r.next%3] {
			ff, fd, err := tds.LookupFieldFmtData(x.dt)
			if err != nil {
				continue
			}
			fd.SetValue(x.v)
			fmts = append(fmts, ff)
			datas = append(datas, fd)
		}
		return tds.NewParamFmtPackage(wide, fmts...), tds.NewParamsPackage(datas...)
	}
	f1, p1 := mk()
	f2, p2 := mk()
	fenc, _ = writeBytes(f2)
	if err := p2.LastPkg(f2); err == nil {
		penc, _ = writeBytes(p2)
	}
	return f1, p1, fenc, penc
}

func (r *txRunner) pkg(op txOp) (tds.Package, []byte) {
	if op.Kind == "lang" && op.N >= 6 {
		cmd := r.payload(op.N - 6)
		enc := []byte{0x21, 0, 0, 0, 0, 0}
		l := uint32(1 + len(cmd))
		enc[1], enc[2], enc[3], enc[4] = byte(l), byte(l>>8), byte(l>>16), byte(l>>24)
		enc = append(enc, cmd...)
		return &tds.LanguagePackage{Cmd: string(cmd)}, enc
	}
	data := r.payload(op.N)
	pkg := tds.NewTokenlessPackage()
	pkg.Data.Write(data)
	return pkg, data
}

func (r *txRunner) apply(op txOp) {
	cx := "live"
	if op.Ctx == "cancelled" {
		cx = "cancelled"
	}
	switch op.Op {
	case "Size":
		ps := op.Body + 8
		// the old value a server names is informational: the right one, none, another size, not a number
		r.sizeOps++
		old := []string{strconv.Itoa(r.conn.PacketSize()), "", strconv.Itoa(r.conn.PacketSize() + 512), "abc", "0"}[r.sizeOps%5]
		body := encEnvChange([3]string{"\x04", strconv.Itoa(ps), old})
		if r.chanN > 0 {
			// through the transport and the reader goroutine
			r.mc.Feed(mkPacket(4, 1, r.ch.VerifChannelID(), 0, body))
			for i := 0; i < 200 && r.conn.PacketSize() != ps; i++ {
				time.Sleep(5 * time.Millisecond)
			}
			time.Sleep(5 * time.Millisecond)
		} else {
			pk := &tds.Packet{Data: body}
			pk.Header.MsgType = tds.TDS_BUF_RESPONSE
			pk.Header.Status = tds.TDS_BUFSTAT_EOM
			pk.Header.Length = uint16(8 + len(body))
			r.ch.WritePacket(pk)
		}
		for {
			if _, err := r.ch.NextPackage(context.Background(), false); err != nil {
				break
			}
		}
		r.tr.Emit(Ev{"ev": "PacketSize", "ps": ps, "applied": r.conn.PacketSize()})
	case "FailWrite":
		// the transport fails after op.N more bytes (C14: failures during a request write)
		r.mc.mu.Lock()
		r.mc.failAfter = r.mc.wrote + op.N
		// the way the write fails, for good: reset, timeout (a net.Error that says so), closed pipe
		switch op.N % 4 {
		case 1:
			r.mc.failErr = failErr{"i/o timeout"}
		case 2:
			r.mc.failErr = io.ErrClosedPipe
		case 3:
			r.mc.failErr = &net.OpError{Op: "write", Net: "tcp", Err: failErr{"i/o timeout"}}
		}
		r.mc.failFull = op.N%7 == 5
		r.mc.mu.Unlock()
		r.failing = true
		r.tr.Emit(Ev{"ev": "WriteFail", "after": op.N, "full": op.N%7 == 5})
	case "Type":
		r.ch.CurrentHeaderType = tds.PacketHeaderType(op.N)
		r.tr.Emit(Ev{"ev": "SetType", "typ": op.N})
	case "Params":
		// a parameter format and its data, queued one after the other in the running message
		fpkg, ppkg, fenc, penc := r.paramPkgs(op.N%2 == 0)
		r.next++
		if len(fenc) == 0 || len(penc) == 0 {
			return
		}
		pkgs, encs := []tds.Package{fpkg, ppkg}, [][]byte{fenc, penc}
		if op.Kind == "only" {
			// the format was announced earlier (the answer to a prepare): the client installs it with
			// SetLastPkgTx and sends the data package alone
			r.ch.SetLastPkgTx(fpkg)
			pkgs, encs = pkgs[1:], encs[1:]
		}
		for i, pk := range pkgs {
			enc := encs[i]
			r.msg = append(r.msg, enc...)
			r.tr.Emit(Ev{"ev": "Queue", "n": len(enc), "ctx": cx, "typ": int(r.ch.CurrentHeaderType)})
			err := r.ch.QueuePackage(r.ctxFor(op), pk)
			r.wires()
			r.tr.Emit(Ev{"ev": "QueueEnd", "st": errClass(err), "typ": int(r.ch.CurrentHeaderType)})
		}
	case "Queue":
		pkg, enc := r.pkg(op)
		r.msg = append(r.msg, enc...)
		r.tr.Emit(Ev{"ev": "Queue", "n": len(enc), "ctx": cx, "typ": int(r.ch.CurrentHeaderType)})
		fw := r.failedWrites()
		err := r.call(func() error { return r.ch.QueuePackage(r.ctxFor(op), pkg) })
		hit := r.failedWrites() > fw
		before := r.npkts
		r.wires()
		if r.npkts-before != op.Npk && op.Body > 0 {
			r.drift++
		}
		r.tr.Emit(Ev{"ev": "QueueEnd", "st": errClass(err), "typ": int(r.ch.CurrentHeaderType), "hit": hit})
	case "Flush":
		r.tr.Emit(Ev{"ev": "Flush", "n": 0, "ctx": cx, "typ": int(r.ch.CurrentHeaderType)})
		fw := r.failedWrites()
		err := r.call(func() error { return r.ch.SendRemainingPackets(r.ctxFor(op)) })
		hit := r.failedWrites() > fw
		before := r.npkts
		r.wires()
		if r.npkts-before != op.Npk && op.Body > 0 { // model drift (TxPath.tla predicts the packets of every step)
			r.drift++
		}
		r.tr.Emit(Ev{"ev": "FlushEnd", "st": errClass(err), "typ": int(r.ch.CurrentHeaderType), "hit": hit})
		r.msg, r.wired = nil, 0
		r.nmsg++
	case "Send":
		if op.Ctx == "cancelled" {
			// SendPackage = QueuePackage + SendRemainingPackets; with a cancelled context it can only get
			// as far as the queue step, so the message stays open (and unjudged) like after a failed Queue
			pkg, enc := r.pkg(op)
			r.msg = append(r.msg, enc...)
			r.tr.Emit(Ev{"ev": "Queue", "n": len(enc), "ctx": cx, "typ": int(r.ch.CurrentHeaderType)})
			err := r.ch.SendPackage(r.ctxFor(op), pkg)
			r.wires()
			r.tr.Emit(Ev{"ev": "QueueEnd", "st": errClass(err), "typ": int(r.ch.CurrentHeaderType)})
			return
		}
		pkg, enc := r.pkg(op)
		r.msg = append(r.msg, enc...)
		r.tr.Emit(Ev{"ev": "Send", "n": len(enc), "ctx": cx, "typ": int(r.ch.CurrentHeaderType)})
		fw := r.failedWrites()
		err := r.call(func() error { return r.ch.SendPackage(r.ctxFor(op), pkg) })
		hit := r.failedWrites() > fw
		r.wires()
		r.tr.Emit(Ev{"ev": "FlushEnd", "st": errClass(err), "typ": int(r.ch.CurrentHeaderType), "hit": hit})
		r.msg, r.wired = nil, 0
		r.nmsg++
	}
}

func (r *txRunner) run(ops []txOp) error {
	if err := r.reset(ops); err != nil {
		return err
	}
	for _, op := range ops {
		if r.setupFailed {
			break
		}
		r.apply(op)
	}
	return nil
}

// split n into k positive parts
func splitLen(rng *rand.Rand, n, k int) []int {
	if k > n {
		k = n
	}
	if k <= 1 {
		return []int{n}
	}
	cuts := map[int]bool{}
	for len(cuts) < k-1 {
		cuts[1+rng.Intn(n-1)] = true
	}
	var parts []int
	last := 0
	for i := 1; i <= n; i++ {
		if cuts[i] || i == n {
			parts = append(parts, i-last)
			last = i
		}
	}
	return parts
}

// txMessage appends the ops of one message of total length `total` under call split `style`.
func txMessage(rng *rand.Rand, ops []txOp, total, body, style int) []txOp {
	kind := ""
	if total >= 6 && rng.Intn(4) == 0 {
		kind = "lang"
	}
	switch style {
	case 0:
		return append(ops, txOp{Op: "Send", N: total, Kind: kind})
	case 1:
		return append(ops, txOp{Op: "Queue", N: total, Kind: kind}, txOp{Op: "Flush"})
	case 2:
		for _, p := range splitLen(rng, total, 2+rng.Intn(3)) {
			ops = append(ops, txOp{Op: "Queue", N: p})
		}
		return append(ops, txOp{Op: "Flush"})
	default:
		parts := splitLen(rng, total, 2)
		if len(parts) == 1 {
			return append(ops, txOp{Op: "Send", N: total})
		}
		return append(ops, txOp{Op: "Queue", N: parts[0]}, txOp{Op: "Send", N: parts[1]})
	}
}

var hdrTypes = []int{1, 2, 3, 15, 7, 14, 6, 13, 16, 19}

func txMain(args []string) error {
	fs := flag.NewFlagSet("tx", flag.ExitOnError)
	out := fs.String("out", "tx.ndjson", "trace file")
	scn := fs.String("scn", "", "scenarios generated by TLC")
	desc := fs.String("desc", "", "one scenario to replay")
	seed := fs.Int64("seed", 1, "seed")
	directed := fs.String("directed", "", "directed enumeration: quick | all:<from>:<to>")
	count := fs.Int("count", 0, "random scenarios")
	wfail := fs.Int("wfail", 0, "scenarios with a transport failure during a request write")
	fs.Parse(args)
	tr, err := NewTracer(*out)
	if err != nil {
		return err
	}
	r := &txRunner{tr: tr}
	rng := rand.New(rand.NewSource(*seed))
	if *scn != "" {
		b, err := os.ReadFile(*scn)
		if err != nil {
			return err
		}
		var scns [][]txOp
		if err := json.Unmarshal(b, &scns); err != nil {
			return err
		}
		for _, ops := range scns {
			if len(ops) == 0 {
				continue
			}
			// the model's initial body size is installed by a genuine ENVCHANGE first
			full := append([]txOp{{Op: "Size", Body: ops[0].Body}}, ops...)
			if err := r.run(full); err != nil {
				return err
			}
		}
	}
	if *desc != "" {
		var ops []txOp
		if err := json.Unmarshal([]byte(*desc), &ops); err != nil {
			return err
		}
		if err := r.run(ops); err != nil {
			return err
		}
	}
	if *directed != "" {
		var sizes []int
		var kds [][2]int
		if *directed == "quick" {
			set := map[int]bool{256: true, 65535: true, 512: true}
			for p := 256; p <= 32768; p *= 2 {
				set[p], set[p-1], set[p+1] = true, true, true
			}
			set[65534] = true
			for i := 0; i < 25; i++ {
				set[256+rng.Intn(65535-256+1)] = true
			}
			for i := 0; i < 12; i++ { // tiny sizes too (same structure as TLC's scope)
				set[9+rng.Intn(40)] = true
			}
			for s := range set {
				if s >= 9 && s <= 65535 {
					sizes = append(sizes, s)
				}
			}
			for k := 0; k <= 3; k++ {
				for d := -1; d <= 1; d++ {
					kds = append(kds, [2]int{k, d})
				}
			}
		} else {
			var from, to int
			fmt.Sscanf(*directed, "all:%d:%d", &from, &to)
			for s := from; s <= to; s++ {
				sizes = append(sizes, s)
			}
			kds = [][2]int{{1, 0}, {2, 0}, {1, -1}, {1, 1}, {2, 1}}
		}
		for _, ps := range sizes {
			body := ps - 8
			var ops []txOp
			ops = append(ops, txOp{Op: "Size", Body: body})
			n := 0
			for _, kd := range kds {
				total := kd[0]*body + kd[1]
				if total < 1 {
					continue
				}
				styles := []int{0, 1, 2, 3}
				if *directed != "quick" {
					styles = []int{rng.Intn(4)}
				}
				for _, st := range styles {
					if rng.Intn(5) == 0 {
						ops = append(ops, txOp{Op: "Type", N: hdrTypes[rng.Intn(len(hdrTypes))]})
					}
					ops = txMessage(rng, ops, total, body, st)
					n++
					if n%12 == 0 { // keep scenarios moderately long
						if err := r.run(ops); err != nil {
							return err
						}
						ops = []txOp{{Op: "Size", Body: body}}
					}
				}
			}
			if len(ops) > 1 {
				// a size change between two messages, then one more boundary message
				nb := 248 + rng.Intn(65527-248+1)
				if ps < 256 {
					nb = 1 + rng.Intn(48)
				}
				ops = append(ops, txOp{Op: "Size", Body: nb})
				ops = txMessage(rng, ops, nb*(1+rng.Intn(2)), nb, rng.Intn(4))
				if err := r.run(ops); err != nil {
					return err
				}
			}
		}
	}
	if *directed != "" {
		// every packet header type a message can be sent with: messages of several packets, also exact multiples
		for t := 1; t <= 23; t++ {
			body := 248 + rng.Intn(300)
			ops := []txOp{{Op: "Size", Body: body}, {Op: "Type", N: t}}
			ops = txMessage(rng, ops, 2*body+1+rng.Intn(body-1), body, rng.Intn(4))
			ops = txMessage(rng, ops, 2*body, body, rng.Intn(4))
			ops = txMessage(rng, ops, 1+rng.Intn(body-1), body, 0)
			r.chanN = 0
			if err := r.run(ops); err != nil {
				return err
			}
		}
	}
	if *directed != "" || *count > 0 {
		// a channel id that does not fit into one byte (the header carries two)
		body := 248 + rng.Intn(300)
		ops := []txOp{{Op: "Size", Body: body}}
		ops = txMessage(rng, ops, 2*body+7, body, 0)
		ops = txMessage(rng, ops, 2*body, body, 1)
		r.chanN = 256 + rng.Intn(40)
		if err := r.run(ops); err != nil {
			return err
		}
		r.chanN = 0
	}
	for i := 0; i < *count; i++ {
		var body int
		switch rng.Intn(3) {
		case 0:
			body = 1 + rng.Intn(24)
		case 1:
			body = 248 + rng.Intn(1024)
		default:
			body = 248 + rng.Intn(65527-248+1)
		}
		ops := []txOp{{Op: "Size", Body: body}}
		r.chanN = 0
		if rng.Intn(4) == 0 {
			r.chanN = 1 + rng.Intn(3)
		}
		for m := 0; m < 1+rng.Intn(4); m++ {
			var total int
			switch rng.Intn(4) {
			case 0:
				total = (1 + rng.Intn(3)) * body
			case 1:
				total = 1 + rng.Intn(body)
			default:
				total = 1 + rng.Intn(3*body+2)
			}
			if rng.Intn(4) == 0 {
				ops = append(ops, txOp{Op: "Type", N: hdrTypes[rng.Intn(len(hdrTypes))]})
			}
			if rng.Intn(5) == 0 { // packages that depend on the package queued before them
				ops = append(ops, txOp{Op: "Params", N: rng.Intn(2), Kind: []string{"", "only"}[rng.Intn(2)]})
			}
			if rng.Intn(12) == 0 { // C13: a send with a cancelled context writes nothing
				ops = append(ops, txOp{Op: "Queue", N: total, Ctx: "cancelled"})
				ops = append(ops, txOp{Op: "Flush"})
				continue
			}
			if rng.Intn(10) == 0 {
				// a flush given up with a cancelled context leaves nothing behind for the next message
				for _, p := range splitLen(rng, total, 1+rng.Intn(2)) {
					ops = append(ops, txOp{Op: "Queue", N: p})
				}
				ops = append(ops, txOp{Op: "Flush", Ctx: "cancelled"})
				if rng.Intn(2) == 0 {
					ops = append(ops, txOp{Op: "Flush"}) // the flush is repeated: it terminates what is on the wire
				}
				ops = txMessage(rng, ops, 1+rng.Intn(2*body), body, rng.Intn(4))
				continue
			}
			if rng.Intn(16) == 0 {
				ops = append(ops, txOp{Op: "Send", N: total, Ctx: "cancelled"})
				ops = append(ops, txOp{Op: []string{"Flush", "Flush", "Send"}[rng.Intn(3)], N: 1 + rng.Intn(body), Ctx: []string{"", "cancelled"}[rng.Intn(2)]})
				if ops[len(ops)-1].Op == "Send" && ops[len(ops)-1].Ctx == "cancelled" {
					ops = append(ops, txOp{Op: "Flush"})
				}
				ops = txMessage(rng, ops, 1+rng.Intn(2*body), body, rng.Intn(4))
				continue
			}
			ops = txMessage(rng, ops, total, body, rng.Intn(4))
			if rng.Intn(5) == 0 {
				body = 248 + rng.Intn(4096)
				ops = append(ops, txOp{Op: "Size", Body: body})
			}
		}
		if err := r.run(ops); err != nil {
			return err
		}
	}
	if *directed != "" || *count > 0 {
		// packet numbers of a logical channel wrap modulo 256: more than 256 packets on channel 1
		for _, body := range []int{1 + rng.Intn(6), 248} {
			r.chanN = 1
			ops := []txOp{{Op: "Size", Body: body}}
			ops = txMessage(rng, ops, 200*body+1, body, 1)
			ops = txMessage(rng, ops, 150*body, body, 0)
			if err := r.run(ops); err != nil {
				return err
			}
		}
		r.chanN = 0
	}
	for i := 0; i < *wfail; i++ {
		body := 248 + rng.Intn(2048)
		total := 1 + rng.Intn(3*body)
		after := rng.Intn(total + 8*(total/body+1) + 1)
		ops := []txOp{{Op: "Size", Body: body}, {Op: "FailWrite", N: after}}
		ops = txMessage(rng, ops, total, body, rng.Intn(4))
		r.chanN = 0
		if err := r.run(ops); err != nil {
			return err
		}
	}
	if err := tr.Close(); err != nil {
		return err
	}
	writeSummary(*out+".summary.json", map[string]interface{}{
		"scenarios": r.scn, "messages": r.nmsg, "packets": r.npkts, "drift": r.drift})
	return nil
}
