package main

import (
	"database/sql"
	"flag"
	"fmt"
	"sort"

	dblib "github.com/SAP/go-dblib"
)

func init() { families["iso"] = isoMain }

func aseName(l dblib.ASEIsolationLevel) string {
	switch l {
	case dblib.ASELevelInvalid:
		return "INV"
	case dblib.ASELevelReadUncommitted:
		return "RU"
	case dblib.ASELevelReadCommitted:
		return "RC"
	case dblib.ASELevelRepeatableRead:
		return "RR"
	case dblib.ASELevelSerializableRead:
		return "SR"
	}
	return fmt.Sprintf("ase%d", int(l))
}

func distinct(f func() string, n int) []string {
	m := map[string]bool{}
	for i := 0; i < n; i++ {
		m[f()] = true
	}
	var o []string
	for k := range m {
		o = append(o, k)
	}
	sort.Strings(o)
	return o
}

func isoMain(args []string) error {
	fs := flag.NewFlagSet("iso", flag.ExitOnError)
	out := fs.String("out", "iso.ndjson", "trace file")
	reps := fs.Int("reps", 200, "evaluations per argument")
	first := fs.Bool("first", true, "emit the Reset line (only the first process of a run does)")
	fs.Parse(args)
	tr, err := NewTracer(*out)
	if err != nil {
		return err
	}
	if *first {
		tr.Reset(map[string]interface{}{"driver": "iso", "reps": *reps})
	}
	call := func(fn, arg string, f func() string) {
		tr.Emit(Ev{"ev": "Call", "fn": fn, "arg": arg, "out": distinct(f, *reps)})
	}
	for s := -8; s <= 64; s++ {
		lvl := sql.IsolationLevel(s)
		call("FromGo", fmt.Sprint(s), func() string {
			a, err := dblib.ASEIsolationLevelFromGo(lvl)
			if err != nil {
				return "error"
			}
			return aseName(a)
		})
		call("RoundTrip", fmt.Sprint(s), func() string {
			a, err := dblib.ASEIsolationLevelFromGo(lvl)
			if err != nil {
				return "error"
			}
			return fmt.Sprint(int(a.ToGo()))
		})
	}
	for a := -3; a <= 8; a++ {
		lvl := dblib.ASEIsolationLevel(a)
		call("ToGo", aseName(lvl), func() string { return fmt.Sprint(int(lvl.ToGo())) })
		call("String", aseName(lvl), func() string { return lvl.String() })
	}
	// a function has no memory: whatever was translated before, every level translates to the same answer
	// (every ASE level is asked again behind every forward translation, and the forward ones behind the backward ones)
	for s := -2; s <= 9; s++ {
		dblib.ASEIsolationLevelFromGo(sql.IsolationLevel(s))
		for a := 0; a <= 5; a++ {
			lvl := dblib.ASEIsolationLevel(a)
			call("ToGo", aseName(lvl), func() string { return fmt.Sprint(int(lvl.ToGo())) })
			call("String", aseName(lvl), func() string { return lvl.String() })
			_ = lvl.ToGo()
			call("FromGo", fmt.Sprint(s), func() string {
				x, err := dblib.ASEIsolationLevelFromGo(sql.IsolationLevel(s))
				if err != nil {
					return "error"
				}
				return aseName(x)
			})
		}
	}
	return tr.Close()
}
