SPECIFICATION Spec
CONSTANTS
  Creators = {"g1", "g2"}
  MaxPkgs = 3
  ATOMIC = TRUE
  REGFIRST = TRUE
  CHANNELNR = FALSE
  MaxSends = 3
  PTRACK = TRUE
INVARIANTS C12_DistinctIds C12_SetupSucceedsOnAck C12_RoutedToHeaderChannel C12_InOrder C12_NoCrossTalk C12_NoReuseAfterClose C12_AckReachesItsChannel C12_ConsecutiveNumbers
CHECK_DEADLOCK FALSE
