SPECIFICATION Spec
CONSTANTS K = 1
 GEN = TRUE
CONSTRAINT GenPrint
CHECK_DEADLOCK FALSE
