---------------------------- MODULE MC_DataTypes ----------------------------
(* Self-check of DataTypes.tla by TLC (no behaviours: everything is an ASSUME evaluated once).           *)
(*  - the closed form DayNo agrees with counting days (the month lengths and the leap rule define the     *)
(*    proleptic Gregorian calendar): DayNo(0001-01-01) = 0 and DayNo(the day after x) = DayNo(x) + 1 for  *)
(*    every day of the years in YEARS; CivilOf is its inverse                                             *)
(*  - fixed vectors: epochs and type limits from the ASE documentation                                    *)
(*  - the multi-byte arithmetic against values small enough for TLC's integers                           *)
EXTENDS DataTypes, TLC
CONSTANTS YEARS
VARIABLE dummy
Tm(y, mo, d, h, mi, s, ns) == [k |-> "tm", y |-> y, mo |-> mo, d |-> d, h |-> h, mi |-> mi, s |-> s, ns |-> ns]
IntV(neg, dig) == [k |-> "int", neg |-> neg, dig |-> dig, gt |-> "x"]

ASSUME DayNo(1, 1, 1) = 0 /\ DayNo(0, 1, 1) = 0 - 366 /\ DayNo(0, 12, 31) = 0 - 1
ASSUME \A y \in YEARS : \A m \in 1..12 : \A d \in 1..MonthLen(y, m) :
          LET n == Succ(y, m, d) IN
          /\ DayNo(n[1], n[2], n[3]) = DayNo(y, m, d) + 1
          /\ CivilOf(DayNo(y, m, d)) = <<y, m, d>>
\* epochs and limits
ASSUME Epoch1900 = 693595
ASSUME DayNo(1753, 1, 1) - Epoch1900 = 0 - 53690            \* datetime minimum
ASSUME DayNo(9999, 12, 31) - Epoch1900 = 2958463            \* datetime maximum
ASSUME DayNo(2079, 6, 6) - Epoch1900 = 65535                \* smalldatetime maximum
ASSUME DayNo(9999, 12, 31) = 3652058
ASSUME Rel("DATETIME", Tm(1900, 1, 1, 0, 0, 0, 0), <<0, 0, 0, 0, 0, 0, 0, 0>>)
ASSUME Rel("DATETIME", Tm(1900, 1, 2, 0, 0, 1, 0), <<1, 0, 0, 0, 44, 1, 0, 0>>)              \* 300 ticks
ASSUME Rel("DATETIME", Tm(1899, 12, 31, 23, 59, 59, 0), <<255, 255, 255, 255, 212, 128, 139, 1>>)   \* day -1, 25919700 ticks
ASSUME Rel("DATE", Tm(1, 1, 1, 0, 0, 0, 0), <<165, 106, 245, 255>>)                          \* -693595
ASSUME Rel("SHORTDATE", Tm(2079, 6, 6, 23, 59, 0, 0), <<255, 255, 159, 5>>)
ASSUME Rel("TIME", Tm(1, 1, 1, 23, 59, 59, 996666000), <<255, 129, 139, 1>>)                 \* 25919999 ticks (floor)
\* bigdatetime: 0001-01-01 is 366 days after 0000-01-01: 31622400 * 10^6 microseconds = 0x1CC2A9EB4000
ASSUME Rel("BIGDATETIMEN", Tm(1, 1, 1, 0, 0, 0, 0), <<0, 64, 235, 169, 194, 28, 0, 0>>)
ASSUME Rel("BIGTIMEN", Tm(1, 1, 1, 23, 59, 59, 999999000), <<255, 95, 215, 29, 20, 0, 0, 0>>)   \* 86399999999 = 0x141DD75FFF
\* integers
ASSUME Rel("INT4", IntV(TRUE, <<1>>), <<255, 255, 255, 255>>)
ASSUME Rel("INT4", IntV(TRUE, <<2, 1, 4, 7, 4, 8, 3, 6, 4, 8>>), <<0, 0, 0, 128>>)
ASSUME ~Rel("INT4", IntV(FALSE, <<2, 1, 4, 7, 4, 8, 3, 6, 4, 8>>), <<0, 0, 0, 128>>)
ASSUME Rel("INT8", IntV(FALSE, <<9, 2, 2, 3, 3, 7, 2, 0, 3, 6, 8, 5, 4, 7, 7, 5, 8, 0, 7>>), <<255, 255, 255, 255, 255, 255, 255, 127>>)
ASSUME Rel("INT8", IntV(TRUE, <<9, 2, 2, 3, 3, 7, 2, 0, 3, 6, 8, 5, 4, 7, 7, 5, 8, 0, 8>>), <<0, 0, 0, 0, 0, 0, 0, 128>>)
ASSUME Rel("UINT8", IntV(FALSE, <<1, 8, 4, 4, 6, 7, 4, 4, 0, 7, 3, 7, 0, 9, 5, 5, 1, 6, 1, 5>>), <<255, 255, 255, 255, 255, 255, 255, 255>>)
ASSUME Rel("INT1", IntV(FALSE, <<2, 5, 5>>), <<255>>) /\ ~Rel("INT1", IntV(TRUE, <<1>>), <<255>>)
ASSUME \A n \in 0..70000 : NatLE(<<n \div 10000, (n \div 1000) % 10, (n \div 100) % 10, (n \div 10) % 10, n % 10>>) \in {IntLE(n), IntLE(n) \o <<0>>}
\* money: 1.0000 = 10000 = 0x2710; high word first
ASSUME Rel("MONEY", [k |-> "dec", neg |-> FALSE, dig |-> <<1, 0, 0, 0, 0>>, prec |-> 20, scale |-> 4], <<0, 0, 0, 0, 16, 39, 0, 0>>)
ASSUME Rel("MONEY", [k |-> "dec", neg |-> TRUE, dig |-> <<1>>, prec |-> 20, scale |-> 4], <<255, 255, 255, 255, 255, 255, 255, 255>>)
ASSUME Rel("SHORTMONEY", [k |-> "dec", neg |-> TRUE, dig |-> <<1, 0, 0, 0, 0>>, prec |-> 10, scale |-> 4], <<240, 216, 255, 255>>)
ASSUME Rel("NUMN", [k |-> "dec", neg |-> TRUE, dig |-> <<2, 5, 6>>, prec |-> 5, scale |-> 0], <<1, 0, 1, 0>>)
\* floats: 1.0 = 0x3FF0000000000000
ASSUME Rel("FLT8", [k |-> "hex", nib |-> <<3, 15, 15, 0, 0, 0, 0, 0, 0, 0, 0, 0, 0, 0, 0, 0>>], <<0, 0, 0, 0, 0, 0, 240, 63>>)
\* unitext: 'a', U+20AC, U+1F600 (surrogates D83D DE00)
ASSUME Rel("UNITEXT", [k |-> "cps", x |-> <<97, 8364, 128512>>], <<97, 0, 172, 32, 61, 216, 0, 222>>)
ASSUME Rel("INTN", [k |-> "null"], <<>>) /\ ~Rel("INT4", [k |-> "null"], <<>>)
\* a value between ticks: either neighbour; on a tick: one encoding
ASSUME LET v == Tm(2000, 2, 29, 12, 0, 0, 5000000) IN
       /\ Rel("DATETIME", v, LE4S(Days1900(v)) \o LE4(12960001)) /\ Rel("DATETIME", v, LE4S(Days1900(v)) \o LE4(12960002))
       /\ ~Rel("DATETIME", v, LE4S(Days1900(v)) \o LE4(12960003))
ASSUME LET v == Tm(2000, 2, 29, 12, 0, 0, 10000000) IN
       /\ Rel("DATETIME", v, LE4S(Days1900(v)) \o LE4(12960003)) /\ ~Rel("DATETIME", v, LE4S(Days1900(v)) \o LE4(12960002))
ASSUME LET v == Tm(1999, 12, 31, 23, 59, 59, 999000000) IN Rel("DATETIME", v, LE4S(Days1900(v) + 1) \o LE4(0))
QuickYears == (0..420) \cup (1570..1610) \cup (1690..1760) \cup (1890..2110) \cup (9590..9999)
AllYears == 0..9999
Init == dummy = 0
Next == UNCHANGED dummy
=============================================================================
