SPECIFICATION Spec
CONSTANTS K = 1
 GEN = FALSE
INVARIANTS C08_ValidSucceeds C08_SuccessOnlyIfAccepted C08_FailAckNeverSucceeds C08_UnusableKeyFails C08_ZeroCapsNeverSucceed
CHECK_DEADLOCK FALSE
