INIT Init
NEXT Next
CONSTANTS
  K = 1
  NPKG = 3
  PEERANSWERS = TRUE
  CLOSESIGNAL = FALSE
  Closers = {"X"}
  RECHECK = TRUE
  SENDER = FALSE
  RELOCK = FALSE
  GEN = TRUE
CONSTRAINT GenPrint
CHECK_DEADLOCK FALSE
