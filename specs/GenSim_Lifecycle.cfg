INIT Init
NEXT Next
CONSTANTS
  K = 1
  NPKG = 3
  PEERANSWERS = TRUE
  CLOSESIGNAL = FALSE
  Closers = {"X"}
  RECHECK = TRUE
  GEN = TRUE
CONSTRAINT GenPrint
CHECK_DEADLOCK FALSE
