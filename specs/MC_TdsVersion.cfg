INIT Init
NEXT Next
CONSTANT NEGWRAP = TRUE
