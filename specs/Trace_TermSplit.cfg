SPECIFICATION Spec
CONSTRAINT HW
POSTCONDITION Accepted
CHECK_DEADLOCK FALSE
