SPECIFICATION Spec
CONSTANTS
  MaxLen = 6
  Chars = {"a", ";", "s", "d"}
  Quotes = {"s", "d"}
  Semi = ";"
  FailAt = 0
  TAILALWAYS = TRUE
INVARIANTS ModelMeetsContract Lossless
CHECK_DEADLOCK FALSE
