INIT Init
NEXT Next
CONSTANTS
  K = 2
  NPKG = 4
  PEERANSWERS = TRUE
  CLOSESIGNAL = FALSE
  Closers = {"X"}
  RECHECK = TRUE
  SENDER = FALSE
  RELOCK = FALSE
  GEN = TRUE
CONSTRAINT GenPrint
CHECK_DEADLOCK FALSE
