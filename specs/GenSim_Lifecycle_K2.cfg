INIT Init
NEXT Next
CONSTANTS
  K = 2
  NPKG = 4
  PEERANSWERS = TRUE
  CLOSESIGNAL = FALSE
  Closers = {"X"}
  RECHECK = TRUE
  GEN = TRUE
CONSTRAINT GenPrint
CHECK_DEADLOCK FALSE
