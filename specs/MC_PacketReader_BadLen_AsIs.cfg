SPECIFICATION Spec
CONSTANTS
  Streams <- MCBadStreams
  MaxChunk = 9
  HEADERFULL = TRUE
  CHECKLEN = FALSE
  WRAP = 12
  EOFOK = TRUE
  FailKinds = {"none", "eof", "err", "eofd"}
INVARIANTS C10_NeverSpins C10_NothingBehindBadLength C02_PacketsInOrder C14_OnlyCompletePackets C02_NoErrorFromPartition C14_CompleteBeforeError
PROPERTIES C14_ErrorEventually
CHECK_DEADLOCK FALSE
