--------------------------------- MODULE Mux ---------------------------------
(* Design model for C12: logical channels on one connection (tds/conn.go NewChannel,               *)
(* getValidChannelId, ReadFrom; tds/channel.go NewChannel, WritePacket).                            *)
(* Creator goroutines allocate ids at the grain of the code: ATOMIC = TRUE reserves the id with one  *)
(* atomic fetch-and-add (the repaired code), ATOMIC = FALSE reads the counter and increments it in a *)
(* second step (the pinned code: two creators can read the same value).  The peer acknowledges a     *)
(* channel setup, sends numbered packages to channels, and may address a channel that does not       *)
(* exist; the reader goroutine routes every packet by the channel id of its header.                  *)
EXTENDS Integers, Sequences, FiniteSets, TLC
CONSTANTS Creators, MaxPkgs, ATOMIC, PTRACK, REGFIRST, CHANNELNR, MaxSends
\* CHANNELNR = TRUE is the code: every channel numbers its outgoing packets itself (modulo 256); FALSE is the
\* variant with one counter for the whole connection, where the numbers a channel uses are no longer consecutive
\* as soon as two channels send.
\* REGFIRST = TRUE is the code: NewChannel registers the channel in Conn.tdsChannels and then writes the setup
\* packet; FALSE is the variant that writes the setup packet first - the reader goroutine can then route the
\* server's acknowledgement before the channel exists (a connection error, the creator waits for ever).
\* PTRACK = FALSE: the setup acknowledgement is queued by value and NewChannel's type assertion on a
\* pointer fails (the pinned code); TRUE: repaired.

VARIABLES closedCh,     \* ids of channels that were closed (Channel.Close removes them from Conn.tdsChannels)
          counter,      \* tdsChannelCurFreeId
          chans,        \* registered channel ids (Conn.tdsChannels)
          pc, cid,      \* per creator: program counter, id read / reserved
          wire,         \* packets from the peer not yet read by the reader: [ch, kind, val]
          ackq,         \* per channel id: acknowledgement delivered to its package queue
          inflight,     \* per channel id: values the peer sent, not yet received
          got,          \* per channel id: values received, in order
          sentTo,       \* per channel id: values the peer sent, in order
          connErr, nsent, result,
          strayAck,     \* acknowledgements the reader could not deliver to a registered channel
          txnr,         \* next packet number: per channel id, and (index -1) for the connection-wide variant
          outw          \* per channel id: the packet numbers the peer saw on that channel, in order
vars == <<closedCh, counter, chans, pc, cid, wire, ackq, inflight, got, sentTo, connErr, nsent, result, strayAck, txnr, outw>>
Ids == 0..(Cardinality(Creators) + 2)

Init == /\ closedCh = {} /\ counter = 1 /\ chans = {0}                    \* channel 0 exists (login channel)
        /\ pc = [c \in Creators |-> "start"] /\ cid = [c \in Creators |-> 0]
        /\ wire = <<>> /\ ackq = [i \in Ids |-> 0] /\ inflight = [i \in Ids |-> <<>>]
        /\ got = [i \in Ids |-> <<>>] /\ sentTo = [i \in Ids |-> <<>>]
        /\ connErr = 0 /\ nsent = 0 /\ result = [c \in Creators |-> "none"] /\ strayAck = 0
        /\ txnr = [i \in Ids \cup {-1} |-> 0] /\ outw = [i \in Ids |-> <<>>]

\* ---- NewChannel, creator c
ReadId(c) == /\ pc[c] = "start"
             /\ IF ATOMIC THEN /\ cid' = [cid EXCEPT ![c] = counter] /\ counter' = counter + 1
                               /\ pc' = [pc EXCEPT ![c] = "lookup"]
                ELSE /\ cid' = [cid EXCEPT ![c] = counter] /\ pc' = [pc EXCEPT ![c] = "incr"] /\ UNCHANGED counter
             /\ UNCHANGED <<closedCh, chans, wire, ackq, inflight, got, sentTo, connErr, nsent, result, strayAck, txnr, outw>>
Incr(c) == /\ pc[c] = "incr" /\ counter' = counter + 1 /\ pc' = [pc EXCEPT ![c] = "lookup"]
           /\ UNCHANGED <<closedCh, chans, cid, wire, ackq, inflight, got, sentTo, connErr, nsent, result, strayAck, txnr, outw>>
Lookup(c) == /\ pc[c] = "lookup"
             /\ pc' = [pc EXCEPT ![c] = IF cid[c] \in chans THEN "start" ELSE "register"]
             /\ UNCHANGED <<closedCh, counter, chans, cid, wire, ackq, inflight, got, sentTo, connErr, nsent, result, strayAck, txnr, outw>>
\* REGFIRST: register, then write the setup packet (the peer will acknowledge it)
Register(c) == /\ pc[c] = "register"
               /\ IF REGFIRST
                  THEN /\ chans' = chans \cup {cid[c]} /\ pc' = [pc EXCEPT ![c] = "setup"] /\ UNCHANGED wire
                  ELSE /\ wire' = Append(wire, [ch |-> cid[c], kind |-> "ack", val |-> 0])
                       /\ pc' = [pc EXCEPT ![c] = "setup"] /\ UNCHANGED chans
               /\ UNCHANGED <<closedCh, counter, cid, ackq, inflight, got, sentTo, connErr, nsent, result, strayAck, txnr, outw>>
Setup(c) == /\ pc[c] = "setup"
            /\ IF REGFIRST
               THEN /\ wire' = Append(wire, [ch |-> cid[c], kind |-> "ack", val |-> 0]) /\ UNCHANGED chans
               ELSE /\ chans' = chans \cup {cid[c]} /\ UNCHANGED wire
            /\ pc' = [pc EXCEPT ![c] = "await"]
            /\ UNCHANGED <<closedCh, counter, cid, ackq, inflight, got, sentTo, connErr, nsent, result, strayAck, txnr, outw>>
Await(c) == /\ pc[c] = "await" /\ ackq[cid[c]] > 0
            /\ ackq' = [ackq EXCEPT ![cid[c]] = @ - 1]
            /\ result' = [result EXCEPT ![c] = IF PTRACK THEN "ok" ELSE "error"]
            /\ pc' = [pc EXCEPT ![c] = "done"]
            /\ UNCHANGED <<closedCh, counter, chans, cid, wire, inflight, got, sentTo, connErr, nsent, strayAck, txnr, outw>>

\* ---- peer
PeerSend(i) == /\ nsent < MaxPkgs /\ i \in Ids
               /\ wire' = Append(wire, [ch |-> i, kind |-> "pkg", val |-> nsent + 1])
               /\ nsent' = nsent + 1
               /\ sentTo' = [sentTo EXCEPT ![i] = Append(@, nsent + 1)]
               /\ UNCHANGED <<closedCh, counter, chans, pc, cid, ackq, inflight, got, connErr, result, strayAck, txnr, outw>>
\* ---- reader goroutine: Conn.ReadFrom routes by header channel
Route == /\ wire # <<>>
         /\ LET p == Head(wire) IN
            IF p.ch \in chans
            THEN /\ IF p.kind = "ack" THEN ackq' = [ackq EXCEPT ![p.ch] = @ + 1] /\ UNCHANGED inflight
                    ELSE inflight' = [inflight EXCEPT ![p.ch] = Append(@, p.val)] /\ UNCHANGED ackq
                 /\ UNCHANGED connErr
                 /\ UNCHANGED strayAck
            ELSE /\ connErr' = connErr + 1 /\ UNCHANGED <<ackq, inflight>>
                 /\ strayAck' = strayAck + (IF p.kind = "ack" THEN 1 ELSE 0)
         /\ wire' = Tail(wire)
         /\ UNCHANGED <<closedCh, counter, chans, pc, cid, got, sentTo, nsent, result, txnr, outw>>
\* ---- consumer of channel i
Recv(i) == /\ i \in chans /\ inflight[i] # <<>>
           /\ got' = [got EXCEPT ![i] = Append(@, Head(inflight[i]))]
           /\ inflight' = [inflight EXCEPT ![i] = Tail(@)]
           /\ UNCHANGED <<closedCh, counter, chans, pc, cid, wire, ackq, sentTo, connErr, nsent, result, strayAck, txnr, outw>>

\* the owner of logical channel i sends one packet (sendPacket stamps channel id and packet number)
TotalSent == LET F[S \in SUBSET Ids] == IF S = {} THEN 0 ELSE LET x == CHOOSE y \in S : TRUE IN Len(outw[x]) + F[S \ {x}] IN F[Ids]
SendPkt(i) == /\ i \in chans /\ i # 0 /\ (\E c \in Creators : pc[c] = "done" /\ cid[c] = i) /\ TotalSent < MaxSends
              /\ LET k == IF CHANNELNR THEN i ELSE -1 IN
                 /\ outw' = [outw EXCEPT ![i] = Append(@, txnr[k])]
                 /\ txnr' = [txnr EXCEPT ![k] = (@ + 1) % 256]
              /\ UNCHANGED <<closedCh, counter, chans, pc, cid, wire, ackq, inflight, got, sentTo, connErr, nsent, result, strayAck>>

\* Channel.Close of a logical channel whose owner is done with it: unregister, drop what is queued
CloseChan(i) == /\ i \in chans /\ i # 0 /\ \E c \in Creators : pc[c] = "done" /\ cid[c] = i
                /\ chans' = chans \ {i} /\ closedCh' = closedCh \cup {i}
                /\ inflight' = [inflight EXCEPT ![i] = <<>>]
                /\ UNCHANGED <<counter, pc, cid, wire, ackq, got, sentTo, connErr, nsent, result, strayAck, txnr, outw>>
Next == (\E i \in Ids : CloseChan(i) \/ SendPkt(i)) \/ (\E c \in Creators : ReadId(c) \/ Incr(c) \/ Lookup(c) \/ Register(c) \/ Setup(c) \/ Await(c))
        \/ (\E i \in Ids : PeerSend(i) \/ Recv(i)) \/ Route
Spec == Init /\ [][Next]_vars

\* ids are never handed out twice, also not after a close
C12_NoReuseAfterClose == \A i \in closedCh : i \notin chans
Owners(i) == {c \in Creators : pc[c] \in {"setup", "await", "done"} /\ cid[c] = i}
\* every acknowledgement reaches the channel it is for
C12_AckReachesItsChannel == strayAck = 0
\* the packets of one channel carry consecutive packet numbers
C12_ConsecutiveNumbers == \A i \in Ids : \A k \in 1..Len(outw[i]) : outw[i][k] = (k - 1) % 256
C12_DistinctIds == \A i \in Ids : Cardinality(Owners(i)) <= 1 /\ (i = 0 => Owners(i) = {})
C12_SetupSucceedsOnAck == \A c \in Creators : pc[c] = "done" => result[c] = "ok"
IsPrefix(a, b) == Len(a) <= Len(b) /\ SubSeq(b, 1, Len(a)) = a
\* what channel i received is a prefix of what was addressed to it while it existed, in order
C12_RoutedToHeaderChannel == \A i \in Ids : \A k \in 1..Len(got[i]) : \E m \in 1..Len(sentTo[i]) : sentTo[i][m] = got[i][k]
C12_InOrder == \A i \in Ids : \A a, b \in 1..Len(got[i]) : a < b => got[i][a] < got[i][b]
C12_NoCrossTalk == \A i, j \in Ids : i # j => \A a \in 1..Len(got[i]) : \A b \in 1..Len(got[j]) : got[i][a] # got[j][b]
=============================================================================
