SPECIFICATION Spec
CONSTANTS
  MaxBody = 3
  Shapes <- Shapes2
  Rounds = 2
  GEN = FALSE
INVARIANTS C02_DeliveredIsCompletePrefix C03_AtEOM C03_NoCarryOver C11_HooksOnce C11_NeverDelivered NoDesync
VIEW View
CHECK_DEADLOCK FALSE
