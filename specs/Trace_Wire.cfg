SPECIFICATION Spec
CONSTANT Acknowledged = @ACK@
CONSTRAINT HW
POSTCONDITION Accepted
CHECK_DEADLOCK FALSE
