SPECIFICATION Spec
CONSTANTS K = 1
 GEN = FALSE
INVARIANTS TypeOK C08_ModelMeetsContract
PROPERTY C08_Terminates
CHECK_DEADLOCK FALSE
