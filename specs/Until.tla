--------------------------------- MODULE Until ---------------------------------
(* Design model of Channel.NextPackageUntil (tds/channel.go) for C03 / C11: the consumer side of   *)
(* one response.  R is what the channel delivers for the response: packages of kinds "row" (any      *)
(* ordinary package), "eed" (a non-informational message), "doneM" (a DONE with other status bits),   *)
(* closed by exactly one "doneF" (the final DONE - the server's or the library's synthetic one).      *)
(* The consumer calls NextPackageUntil repeatedly with a callback whose answers are scripted          *)
(* ("cont", "stop", "eof" = io.EOF, "err"), or once with a nil callback (call number NilAt); on the     *)
(* final DONE a "cont" answer is turned into "stop" (a consumer that asks for more after the end        *)
(* would wait for the next response).  Call(p, k, nil) is the routine as the code has it, including     *)
(* the recursive draining.                                                                              *)
EXTENDS Integers, Sequences, TLC, Json
CONSTANTS MaxLen, GEN
Kinds == {"row", "eed", "doneM"}
Outs == {"cont", "stop", "eof", "err"}
VARIABLES body, script, nilAt
vars == <<body, script, nilAt>>
R == Append(body, "doneF")
Seqs(S, n) == UNION {[1..k -> S] : k \in 0..n}
Init == /\ body \in Seqs(Kinds, MaxLen) /\ script \in [1..(MaxLen + 1) -> Outs] /\ nilAt \in 0..2
Next == UNCHANGED vars
Spec == Init /\ [][Next]_vars

\* drain with the internal callback isDoneFinal: consume up to and including the final DONE
RECURSIVE Drain(_)
Drain(p) == IF p > Len(R) THEN [st |-> "block", p |-> p]
            ELSE IF R[p] = "doneF" THEN [st |-> "ok", p |-> p + 1] ELSE Drain(p + 1)
\* nil callback: skip messages; final DONE first -> io.EOF, else drain and return nil
RECURSIVE NilCall(_)
NilCall(p) == IF p > Len(R) THEN [st |-> "block", p |-> p]
              ELSE IF R[p] = "eed" THEN NilCall(p + 1)
              ELSE IF R[p] = "doneF" THEN [st |-> "eof", p |-> p + 1]
              ELSE LET d == Drain(p + 1) IN [st |-> IF d.st = "ok" THEN "nil" ELSE "block", p |-> d.p]
\* the callback variant: p next delivery, k next script entry, acc messages collected in this call
RECURSIVE CbCall(_, _, _)
CbCall(p, k, acc) ==
    IF p > Len(R) THEN [st |-> "block", p |-> p, k |-> k, eeds |-> acc, ret |-> 0]
    ELSE IF R[p] = "eed" THEN CbCall(p + 1, k, Append(acc, p))
    ELSE LET o == IF R[p] = "doneF" /\ script[k] = "cont" THEN "stop" ELSE script[k] IN
         CASE o = "cont" -> CbCall(p + 1, k + 1, acc)
           [] o = "stop" -> [st |-> "pkg", p |-> p + 1, k |-> k + 1, eeds |-> acc, ret |-> p]
           [] o = "eof" -> [st |-> "eofpkg", p |-> p + 1, k |-> k + 1, eeds |-> acc, ret |-> p]
           [] OTHER -> \* callback error: consume the rest of the response unless this was the final DONE
                IF R[p] = "doneF" THEN [st |-> "cberr", p |-> p + 1, k |-> k + 1, eeds |-> acc, ret |-> 0]
                ELSE LET n == NilCall(p + 1) IN
                     [st |-> IF n.st = "block" THEN "block" ELSE "cberr", p |-> n.p, k |-> k + 1, eeds |-> acc, ret |-> 0]
\* the session: calls until the response is consumed; returns the sequence of call results
RECURSIVE Session(_, _, _, _)
Session(p, k, c, acc) ==
    IF p > Len(R) \/ c > Len(R) + 2 THEN acc
    ELSE IF c = nilAt THEN LET n == NilCall(p) IN Append(acc, [st |-> n.st, from |-> p, p |-> n.p, eeds |-> <<>>, ret |-> 0])
    ELSE LET r == CbCall(p, k, <<>>) IN
         IF r.st = "block" THEN Append(acc, [st |-> "block", from |-> p, p |-> r.p, eeds |-> r.eeds, ret |-> 0])
         ELSE Session(r.p, r.k, c + 1, Append(acc, [st |-> r.st, from |-> p, p |-> r.p, eeds |-> r.eeds, ret |-> r.ret]))
S == Session(1, 1, 1, <<>>)
Last == S[Len(S)]
EEDsIn(a, b) == SelectSeq([i \in 1..(b - a + 1) |-> a + i - 1], LAMBDA i : i <= Len(R) /\ R[i] = "eed")

\* reading up to the final DONE consumes exactly one response, and never waits for a package that cannot come
C03_ConsumesExactlyOne == S # <<>> /\ Last.p = Len(R) + 1 /\ \A i \in 1..Len(S) : S[i].st # "block"
\* a callback error drains the response
C03_DrainOnCallbackError == \A i \in 1..Len(S) : S[i].st = "cberr" => S[i].p = Len(R) + 1
\* ... and its error carries the messages received in that call up to the failing package, in order
C11_ErrorCarriesMessages == \A i \in 1..Len(S) : S[i].st = "cberr" =>
                               \E q \in S[i].from..Len(R) : S[i].eeds = EEDsIn(S[i].from, q)
\* stop / io.EOF hand the package back and leave the rest of the response queued
C03_StopLeavesRest == \A i \in 1..Len(S) : S[i].st \in {"pkg", "eofpkg"} => S[i].ret = S[i].p - 1
GenPrint == GEN => PrintT(<<"SCN", ToJson([body |-> body, script |-> script, nilat |-> nilAt])>>)
=============================================================================
