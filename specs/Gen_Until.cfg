SPECIFICATION Spec
CONSTANTS MaxLen = 2
 GEN = TRUE
CONSTRAINT GenPrint
CHECK_DEADLOCK FALSE
