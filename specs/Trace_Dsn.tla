------------------------------- MODULE Trace_Dsn -------------------------------
(* Trace validation for C17.  The key/alias table below is the specification's own transcription  *)
(* of the target struct's tags (canonical json name <- multiref aliases).                           *)
EXTENDS TraceBase
VARIABLES l
vars == <<l>>
E == Trace[l]
IsEvent(e) == l <= Len(Trace) /\ Trace[l].ev = e /\ l' = l + 1
Init == l = 1 /\ HWInit
T_Reset == IsEvent("Reset")

Canon == [k \in {"app-name", "database", "flag", "host", "num", "opt", "password", "port", "timeout", "tls", "username"} |-> k]
         @@ ("app" :> "app-name") @@ ("db" :> "database") @@ ("hostname" :> "host") @@ ("n" :> "num")
         @@ ("option" :> "opt") @@ ("o" :> "opt") @@ ("passwd" :> "password") @@ ("pass" :> "password") @@ ("user" :> "username")
Fields == <<"app-name", "database", "flag", "host", "num", "opt", "password", "port", "timeout", "tls", "username">>
Zero(f) == IF f \in {"flag", "tls"} THEN "false" ELSE IF f \in {"num", "timeout"} THEN "0" ELSE ""

\* the value of field f after the items: the last occurrence of the key or of one of its aliases wins
RECURSIVE LastFor(_, _, _)
LastFor(items, f, i) == IF i = 0 THEN Zero(f)
                        ELSE IF items[i][1] \in DOMAIN Canon /\ Canon[items[i][1]] = f THEN items[i][2]
                        ELSE LastFor(items, f, i - 1)
Expected(items) == [j \in 1..Len(Fields) |-> <<Fields[j], LastFor(items, Fields[j], Len(items))>>]
AllKnown(items) == \A i \in 1..Len(items) : items[i][1] \in DOMAIN Canon

T_Simple == /\ IsEvent("Simple")
            /\ E.st # "panic"
            /\ IF AllKnown(E.items) THEN E.st = "ok" /\ E.out = Expected(E.items)
               ELSE E.st = "err"                                   \* keys that match no field are rejected
T_RT == /\ IsEvent("RT") /\ E.st = "ok" /\ E.out = E.fields          \* written out and parsed back: same values
T_UriLast == /\ IsEvent("UriLast") /\ E.st # "panic"
             /\ IF E.unknown THEN E.st = "err"
                ELSE /\ E.st = "ok"
                     /\ \E j \in 1..Len(E.out) : E.out[j][1] = Canon[E.key] /\ E.out[j][2] = E.last
T_Total == IsEvent("Total") /\ E.panics = 0                          \* no input whatsoever makes parsing panic
Next == T_Reset \/ T_Simple \/ T_RT \/ T_UriLast \/ T_Total
Spec == Init /\ [][Next]_vars
HW == HWOf(l)
=============================================================================
