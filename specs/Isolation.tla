------------------------------ MODULE Isolation ------------------------------
(* Design model for C20: the isolation level mapping of isolationlevels.go.                      *)
(* database/sql levels: 0 Default, 1 ReadUncommitted, 2 ReadCommitted, 3 WriteCommitted,          *)
(* 4 RepeatableRead, 5 Snapshot, 6 Serializable, 7 Linearizable.  ASE levels by name.             *)
(* ASIS = TRUE models ToGo as ranging over the forward map (Go map iteration: any matching key);  *)
(* ASIS = FALSE is the repaired, explicit reverse mapping.                                         *)
EXTENDS Integers, FiniteSets, TLC
CONSTANTS ASIS
SqlLevels == -8..64
AseLevels == {"INV", "RU", "RC", "RR", "SR", "other"}
Fwd == (0 :> "RC") @@ (1 :> "RU") @@ (2 :> "RC") @@ (3 :> "INV") @@ (4 :> "RR") @@ (6 :> "SR") @@ (7 :> "INV")
Supported == {1, 2, 4, 6}

VARIABLES fn, arg, res
vars == <<fn, arg, res>>
Init == fn = "none" /\ arg = 0 /\ res = 0

FromGo(s) == /\ fn' = "FromGo" /\ arg' = s
             /\ res' = IF s \in DOMAIN Fwd /\ Fwd[s] # "INV" THEN Fwd[s] ELSE "error"
ToGoAsIs(a) == /\ fn' = "ToGo" /\ arg' = a
               /\ \/ \E k \in DOMAIN Fwd : Fwd[k] = a /\ res' = k
                  \/ (\A k \in DOMAIN Fwd : Fwd[k] # a) /\ res' = 0
Rev == ("RU" :> 1) @@ ("RC" :> 2) @@ ("RR" :> 4) @@ ("SR" :> 6)
ToGoFixed(a) == /\ fn' = "ToGo" /\ arg' = a
                /\ res' = IF a \in DOMAIN Rev THEN Rev[a] ELSE 0
Next == (\E s \in SqlLevels : FromGo(s)) \/ (\E a \in AseLevels : IF ASIS THEN ToGoAsIs(a) ELSE ToGoFixed(a))
Spec == Init /\ [][Next]_vars

\* C20_Forward: the four supported levels and default => read committed; everything else an error
C20_Forward == fn = "FromGo" =>
    res = CASE arg \in {0, 2} -> "RC" [] arg = 1 -> "RU" [] arg = 4 -> "RR" [] arg = 6 -> "SR" [] OTHER -> "error"
\* C20_RoundTrip + determinism: a supported level maps back to itself - in particular one value only
C20_RoundTrip == fn = "ToGo" /\ arg \in DOMAIN Rev => res = Rev[arg]
\* determinism for the remaining levels: one answer per argument (here: the default level)
C20_Deterministic == fn = "ToGo" /\ arg \notin DOMAIN Rev => res = 0
=============================================================================
