--------------------------- MODULE MC_PacketReader ---------------------------
EXTENDS PacketReader
\* streams of 1..3 packets with bodies 0..3 (0 = header-only packet)
MCStreams == {<<0>>, <<1>>, <<2, 1>>, <<3, 0, 2>>, <<1, 1, 1>>}
\* with a header that announces a length below 8 (-1: 7, -8: 0), alone, in front of and behind other packets
MCBadStreams == MCStreams \cup {<<-1>>, <<-8, 2>>, <<1, -3, 2, 1>>, <<-2, 3, 3>>}
=============================================================================
