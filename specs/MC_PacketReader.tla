--------------------------- MODULE MC_PacketReader ---------------------------
EXTENDS PacketReader
\* streams of 1..3 packets with bodies 0..3 (0 = header-only packet)
MCStreams == {<<0>>, <<1>>, <<2, 1>>, <<3, 0, 2>>, <<1, 1, 1>>}
=============================================================================
