SPECIFICATION Spec
CONSTANTS
  Bodies = {2, 3}
  MaxLen = 7
  MaxMsgs = 3
  MaxSteps = 7
  FIXED = TRUE
  ABORTS = TRUE
  RESETONERR = TRUE
  EOMCTX = TRUE
  KEEPOPEN = FALSE
  GEN = FALSE
INVARIANTS C01_Messages C01_AllButLastFull C01_NothingLeftBehind C01_SizeBound C01_FlushTerminates C13_CancelledWritesNothing
VIEW View
CHECK_DEADLOCK FALSE
