--------------------------------- MODULE Login ---------------------------------
(* Design-level check of the C08 specification itself and generator of server reply scripts (U2).  *)
(* Every initial state is one (flow, script); K = 1: all single edits of the valid script, K = 2:   *)
(* all double edits.                                                                                 *)
EXTENDS LoginSpec, TLC, Json
CONSTANTS K, GEN
VARIABLES flow, script
vars == <<flow, script>>
Valid(f) == IF f = "plain" THEN ValidPlain ELSE ValidEnc
Scripts(f) == IF K = 0 THEN {Valid(f)} ELSE IF K = 1 THEN Edits1(Valid(f)) \cup {Valid(f)} ELSE Edits2(Valid(f))
Init == flow \in {"plain", "enc"} /\ script \in Scripts(flow)
Next == UNCHANGED vars
Spec == Init /\ [][Next]_vars
V == Verdict(flow, script)
\* sanity of the specification: the valid scripts must succeed, possibly with filtered packages inserted
C08_ValidSucceeds == script = Valid(flow) => V = "S"
Core(s) == SelectSeq(s, LAMBDA e : e.t # "env" /\ e # P("eed", "info") /\ e.t # "eom")
\* what the peer actually sends: the packages of the non-empty, flushed messages
RECURSIVE Flat(_)
Flat(ms) == IF ms = <<>> THEN <<>> ELSE Head(ms) \o Flat(Tail(ms))
SentPkgs(s) == LET ms == Msgs(s, 1, <<>>)
                   n == IF flow = "plain" THEN 1 ELSE 2       \* the client sends one (two) messages, the peer answers each
               IN Flat(SubSeq(ms, 1, IF Len(ms) < n THEN Len(ms) ELSE n))
NormCaps(s) == [i \in 1..Len(s) |-> IF s[i] = P("caps", "subset") THEN P("caps", "normal") ELSE s[i]]
C08_SuccessOnlyIfAccepted == V = "S" => NormCaps(Core(SentPkgs(script))) = Core(Valid(flow))
C08_ZeroCapsNeverSucceed == (\E i \in 1..Len(SentPkgs(script)) : SentPkgs(script)[i] = P("caps", "zero")
                              /\ \A j \in 1..Len(SentPkgs(script)) : SentPkgs(script)[j].t = "caps" => j = i) => V # "S"
\* a failure acknowledgement anywhere the login routine looks for one is never a success
C08_FailAckNeverSucceeds == (\E i \in 1..Len(SentPkgs(script)) : SentPkgs(script)[i] = P("ack", "fail")) => V # "S"
C08_UnusableKeyFails == (flow = "enc" /\ \E i \in 1..Len(script) : script[i].t = "params" /\ script[i].a # "good"
                         /\ (\A j \in 1..(i - 1) : script[j].t # "eom")) => V # "S"
GenPrint == GEN => PrintT(<<"SCN", ToJson([flow |-> flow, script |-> script, verdict |-> V])>>)
=============================================================================
