SPECIFICATION Spec
CONSTANTS
  Bodies = {2, 3}
  MaxLen = 7
  MaxMsgs = 2
  MaxSteps = 5
  FIXED = TRUE
  ABORTS = FALSE
  RESETONERR = TRUE
  EOMCTX = TRUE
  KEEPOPEN = TRUE
  GEN = TRUE
CONSTRAINT GenPrint
CHECK_DEADLOCK FALSE
