SPECIFICATION Spec
CONSTANTS
  Bodies = {2, 3, 4}
  MaxLen = 9
  MaxMsgs = 3
  MaxSteps = 8
  FIXED = FALSE
  ABORTS = FALSE
  RESETONERR = TRUE
  EOMCTX = TRUE
  KEEPOPEN = TRUE
  GEN = FALSE
INVARIANTS C01_Messages C01_AllButLastFull C01_NothingLeftBehind C01_SizeBound
VIEW View
CHECK_DEADLOCK FALSE
