------------------------------ MODULE RecvOrder ------------------------------
(* Design model for C14 ("a prefix of the response's packages ... and then an error"): the order in  *)
(* which Channel.NextPackage hands out queued packages and the error of the connection.             *)
(* The reader goroutine queues the packages of every completely received packet and, when the         *)
(* transport fails, an error into the connection's error queue - in that order.  NextPackage first    *)
(* tries the package queue without blocking ("pre") and then waits in a select on the package queue   *)
(* and the error queues alike ("sel"); between the two steps the reader may run.  PREFER = FALSE is    *)
(* the pinned code: when both queues are ready the select picks either, so the error can overtake      *)
(* packages that are still queued.  PREFER = TRUE is the repaired code: having taken an error, it      *)
(* looks at the package queue again, puts the error back and returns the package.                      *)
EXTENDS Integers, Sequences
CONSTANTS NPKG, PREFER
VARIABLES pq,      \* package queue (package numbers)
          eq,      \* error queue of the connection (0 or 1 error)
          sent,    \* packages the reader has queued so far; NPKG + 1 once it has also reported the failure
          pc,      \* consumer: "pre", "sel", "done"
          out      \* what the consumer got, in order: package numbers, 0 = the error
vars == <<pq, eq, sent, pc, out>>
Init == pq = <<>> /\ eq = 0 /\ sent = 0 /\ pc = "pre" /\ out = <<>>

\* reader goroutine
Push == /\ sent < NPKG /\ pq' = Append(pq, sent + 1) /\ sent' = sent + 1 /\ UNCHANGED <<eq, pc, out>>
Fail == /\ sent = NPKG /\ eq' = 1 /\ sent' = NPKG + 1 /\ UNCHANGED <<pq, pc, out>>

\* consumer: one NextPackage call after the other until it gets the error
Pre == /\ pc = "pre"
       /\ IF pq # <<>> THEN /\ out' = Append(out, Head(pq)) /\ pq' = Tail(pq) /\ UNCHANGED pc
          ELSE pc' = "sel" /\ UNCHANGED <<pq, out>>
       /\ UNCHANGED <<eq, sent>>
SelPkg == /\ pc = "sel" /\ pq # <<>> /\ out' = Append(out, Head(pq)) /\ pq' = Tail(pq) /\ pc' = "pre"
          /\ UNCHANGED <<eq, sent>>
SelErr == /\ pc = "sel" /\ eq = 1
          /\ IF PREFER /\ pq # <<>>
             THEN /\ out' = Append(out, Head(pq)) /\ pq' = Tail(pq) /\ pc' = "pre" /\ UNCHANGED eq   \* error put back
             ELSE /\ out' = Append(out, 0) /\ eq' = 0 /\ pc' = "done" /\ UNCHANGED pq
          /\ UNCHANGED sent
Next == Push \/ Fail \/ Pre \/ SelPkg \/ SelErr
Spec == Init /\ [][Next]_vars /\ WF_vars(Next)

\* the consumer gets every package of the completely received packets, in order, and then the error
C14_PackagesThenError == pc = "done" => out = [i \in 1..NPKG |-> i] \o <<0>>
C14_InOrder == \A i \in 1..Len(out) : out[i] # 0 => out[i] = i
C14_ErrorEventually == <>(pc = "done")
=============================================================================
