------------------------------ MODULE Lifecycle ------------------------------
(* Design model for C13: the lock / queue protocol of tds.Channel (tds/channel.go).                *)
(*  - sync.RWMutex with Go's writer preference: a waiting Lock blocks new RLocks                     *)
(*  - the reader goroutine (Conn.ReadFrom -> Channel.WritePacket) holds the read lock across a        *)
(*    blocking send into the bounded package queue                                                    *)
(*  - NextPackage holds the read lock across its select                                               *)
(*  - Close: entry check ; Logout (send, NextPackage with a timeout) ; signal ; Lock ; re-check ;      *)
(*    mark closed ; drain ; Unlock                                                                     *)
(* CLOSESIGNAL = FALSE is the pinned design.  CLOSESIGNAL = TRUE is the repaired design (the code      *)
(* since fix 08d035b) in which Close first raises a signal that aborts the reader's blocked push and   *)
(* a blocked NextPackage.                                                                              *)
(* Closers is the set of goroutines calling Close on the channel (one, or two that overlap: a channel  *)
(* closed by its owner while Conn.Close closes every channel).  RECHECK = TRUE is the code: behind the *)
(* write lock Close looks at `closed` again and returns "closed"; FALSE is the variant without that    *)
(* second look, where the later closer closes the already cleared queues ("panic").                    *)
(* SENDER adds a goroutine in SendPackage: read lock, transport write (which may take long), reset, *)
(* unlock.  RELOCK = TRUE is the pinned code, whose deferred Reset acquires the read lock a second    *)
(* time: with a closer waiting for the write lock in between, that acquisition and the closer wait    *)
(* for each other for ever.  RELOCK = FALSE is the code since fix 0b2f1ef.                             *)
(* External stimuli (peer packets, calls, cancel) are recorded in `hist` for replay on the real code.  *)
EXTENDS Integers, Sequences, FiniteSets, TLC, Json
CONSTANTS K,            \* capacity of packageCh
          NPKG,         \* packages the peer sends (response abandoned by the consumer)
          PEERANSWERS,  \* does the peer answer the logout
          CLOSESIGNAL, GEN, Closers, RECHECK, SENDER, RELOCK

VARIABLES rd,        \* goroutines holding the read lock
          wr,        \* a closer holds the write lock
          wwait,     \* closers waiting for the write lock (a waiting writer blocks new readers)
          closing,   \* close signal raised (only with CLOSESIGNAL)
          closed, pch, peerLeft,
          logoutSent, logoutAnswered,       \* counters: every closer sends its own logout
          pcR, pcC, pcX, ctxC, result, hist,
          pcS        \* the sender
vars == <<rd, wr, wwait, closing, closed, pch, peerLeft, logoutSent, logoutAnswered, pcR, pcC, pcX, ctxC, result, hist, pcS>>
others == <<wr, wwait, closing, closed, pch, peerLeft, logoutSent, logoutAnswered, pcR, pcC, pcX, ctxC, result, hist>>

H(e) == hist' = IF GEN THEN Append(hist, e) ELSE hist
NoH == UNCHANGED hist
CanRLock == ~wr /\ wwait = {}

Init == /\ rd = {} /\ wr = FALSE /\ wwait = {} /\ closing = FALSE /\ closed = FALSE /\ pch = <<>>
        /\ peerLeft = NPKG /\ logoutSent = 0 /\ logoutAnswered = 0
        /\ pcR = "read" /\ pcC = "idle" /\ pcX = [x \in Closers |-> "idle"] /\ ctxC = "live"
        /\ result = [c \in {"c"} \cup Closers |-> "none"] /\ hist = <<>> /\ pcS = "idle"

\* ---------- reader goroutine: one package per packet
R_Read == /\ pcR = "read" /\ (peerLeft > 0 \/ (PEERANSWERS /\ logoutAnswered < logoutSent))
          /\ IF peerLeft > 0 THEN peerLeft' = peerLeft - 1 /\ UNCHANGED logoutAnswered /\ H([op |-> "peer"])
             ELSE logoutAnswered' = logoutAnswered + 1 /\ UNCHANGED peerLeft /\ NoH
          /\ pcR' = "rlock"
          /\ UNCHANGED <<rd, wr, wwait, closing, closed, pch, logoutSent, pcC, pcX, ctxC, result>>
R_RLock == /\ pcR = "rlock" /\ CanRLock /\ rd' = rd \cup {"R"}
           /\ pcR' = IF closed THEN "runlock" ELSE "push"
           /\ UNCHANGED <<wr, wwait, closing, closed, pch, peerLeft, logoutSent, logoutAnswered, pcC, pcX, ctxC, result, hist>>
R_Push == /\ pcR = "push" /\ Len(pch) < K /\ pch' = Append(pch, "pkg") /\ pcR' = "runlock"
          /\ UNCHANGED <<rd, wr, wwait, closing, closed, peerLeft, logoutSent, logoutAnswered, pcC, pcX, ctxC, result, hist>>
\* repaired design only: a blocked push is abandoned when the channel is closing
R_PushAbort == /\ CLOSESIGNAL /\ pcR = "push" /\ closing /\ pcR' = "runlock"
               /\ UNCHANGED <<rd, wr, wwait, closing, closed, pch, peerLeft, logoutSent, logoutAnswered, pcC, pcX, ctxC, result, hist>>
R_RUnlock == /\ pcR = "runlock" /\ rd' = rd \ {"R"} /\ pcR' = "read"
             /\ UNCHANGED <<wr, wwait, closing, closed, pch, peerLeft, logoutSent, logoutAnswered, pcC, pcX, ctxC, result, hist>>

\* ---------- consumer: one NextPackage(ctx, wait = true), whose context may be cancelled
C_Start == /\ pcC = "idle" /\ pcC' = "rlock" /\ H([op |-> "next"])
           /\ UNCHANGED <<rd, wr, wwait, closing, closed, pch, peerLeft, logoutSent, logoutAnswered, pcR, pcX, ctxC, result>>
C_RLock == /\ pcC = "rlock" /\ CanRLock /\ rd' = rd \cup {"C"}
           /\ pcC' = IF closed THEN "ret_closed" ELSE "wait"
           /\ UNCHANGED <<wr, wwait, closing, closed, pch, peerLeft, logoutSent, logoutAnswered, pcR, pcX, ctxC, result, hist>>
C_Recv == /\ pcC = "wait" /\ pch # <<>> /\ pch' = Tail(pch) /\ pcC' = "unlock"
          /\ result' = [result EXCEPT !.c = "pkg"]
          /\ UNCHANGED <<rd, wr, wwait, closing, closed, peerLeft, logoutSent, logoutAnswered, pcR, pcX, ctxC, hist>>
C_Ctx == /\ pcC = "wait" /\ pch = <<>> /\ ctxC = "cancelled" /\ pcC' = "unlock"
         /\ result' = [result EXCEPT !.c = "ctxerr"]
         /\ UNCHANGED <<rd, wr, wwait, closing, closed, pch, peerLeft, logoutSent, logoutAnswered, pcR, pcX, ctxC, hist>>
C_Closing == /\ CLOSESIGNAL /\ pcC = "wait" /\ pch = <<>> /\ closing /\ pcC' = "unlock"
             /\ result' = [result EXCEPT !.c = "closed"]
             /\ UNCHANGED <<rd, wr, wwait, closing, closed, pch, peerLeft, logoutSent, logoutAnswered, pcR, pcX, ctxC, hist>>
C_Closed == /\ pcC = "ret_closed" /\ pcC' = "unlock" /\ result' = [result EXCEPT !.c = "closed"]
            /\ UNCHANGED <<rd, wr, wwait, closing, closed, pch, peerLeft, logoutSent, logoutAnswered, pcR, pcX, ctxC, hist>>
C_Unlock == /\ pcC = "unlock" /\ rd' = rd \ {"C"} /\ pcC' = "done"
            /\ UNCHANGED <<wr, wwait, closing, closed, pch, peerLeft, logoutSent, logoutAnswered, pcR, pcX, ctxC, result, hist>>
Cancel == /\ ctxC = "live" /\ pcC # "idle" /\ ctxC' = "cancelled" /\ H([op |-> "cancel"])
          /\ UNCHANGED <<rd, wr, wwait, closing, closed, pch, peerLeft, logoutSent, logoutAnswered, pcR, pcC, pcX, result>>

\* ---------- closers: Channel.Close on channel 0
Go(x, l) == pcX' = [pcX EXCEPT ![x] = l]
\* entry check under the read lock: an already closed channel is reported at once
X_Start(x) == /\ pcX[x] = "idle" /\ CanRLock /\ H([op |-> "close"])
              /\ IF closed THEN Go(x, "done") /\ result' = [result EXCEPT ![x] = "closed"]
                 ELSE Go(x, "send_rlock") /\ UNCHANGED result
              /\ UNCHANGED <<rd, wr, wwait, closing, closed, pch, peerLeft, logoutSent, logoutAnswered, pcR, pcC, ctxC>>
X_SendRLock(x) == /\ pcX[x] = "send_rlock" /\ CanRLock /\ rd' = rd \cup {x}
                  /\ IF closed THEN Go(x, "np_closed") ELSE Go(x, "send")   \* SendPackage on a closed channel: ErrChannelClosed
                  /\ UNCHANGED <<wr, wwait, closing, closed, pch, peerLeft, logoutSent, logoutAnswered, pcR, pcC, ctxC, result, hist>>
X_Send(x) == /\ pcX[x] = "send" /\ logoutSent' = logoutSent + 1 /\ rd' = rd \ {x} /\ Go(x, "np_rlock")
             /\ UNCHANGED <<wr, wwait, closing, closed, pch, peerLeft, logoutAnswered, pcR, pcC, ctxC, result, hist>>
X_NpRLock(x) == /\ pcX[x] = "np_rlock" /\ CanRLock /\ rd' = rd \cup {x}
                /\ IF closed THEN Go(x, "np_closed") ELSE Go(x, "np_wait")
                /\ UNCHANGED <<wr, wwait, closing, closed, pch, peerLeft, logoutSent, logoutAnswered, pcR, pcC, ctxC, result, hist>>
X_NpRecv(x) == /\ pcX[x] = "np_wait" /\ pch # <<>> /\ pch' = Tail(pch) /\ rd' = rd \ {x} /\ Go(x, "signal")
               /\ UNCHANGED <<wr, wwait, closing, closed, peerLeft, logoutSent, logoutAnswered, pcR, pcC, ctxC, result, hist>>
X_NpTimeout(x) == /\ pcX[x] = "np_wait" /\ pch = <<>> /\ rd' = rd \ {x} /\ Go(x, "signal")   \* the 1-minute logout context expires
                  /\ UNCHANGED <<wr, wwait, closing, closed, pch, peerLeft, logoutSent, logoutAnswered, pcR, pcC, ctxC, result, hist>>
\* the other closer's signal also ends this closer's wait for the logout answer (NextPackage watches it)
X_NpClosing(x) == /\ CLOSESIGNAL /\ pcX[x] = "np_wait" /\ pch = <<>> /\ closing /\ rd' = rd \ {x} /\ Go(x, "signal")
                  /\ UNCHANGED <<wr, wwait, closing, closed, pch, peerLeft, logoutSent, logoutAnswered, pcR, pcC, ctxC, result, hist>>
X_NpClosed(x) == /\ pcX[x] = "np_closed" /\ rd' = rd \ {x} /\ Go(x, "signal")
                 /\ UNCHANGED <<wr, wwait, closing, closed, pch, peerLeft, logoutSent, logoutAnswered, pcR, pcC, ctxC, result, hist>>
X_Signal(x) == /\ pcX[x] = "signal" /\ closing' = (closing \/ CLOSESIGNAL) /\ Go(x, "lock")
               /\ UNCHANGED <<rd, wr, wwait, closed, pch, peerLeft, logoutSent, logoutAnswered, pcR, pcC, ctxC, result, hist>>
X_LockWait(x) == /\ pcX[x] = "lock" /\ x \notin wwait /\ wwait' = wwait \cup {x}
                 /\ UNCHANGED <<rd, wr, closing, closed, pch, peerLeft, logoutSent, logoutAnswered, pcR, pcC, pcX, ctxC, result, hist>>
X_Lock(x) == /\ pcX[x] = "lock" /\ x \in wwait /\ rd = {} /\ ~wr /\ wr' = TRUE /\ wwait' = wwait \ {x} /\ Go(x, "mark")
             /\ UNCHANGED <<rd, closing, closed, pch, peerLeft, logoutSent, logoutAnswered, pcR, pcC, ctxC, result, hist>>
\* behind the write lock: closed concurrently?  Otherwise mark closed and drain the queues
X_Mark(x) == /\ pcX[x] = "mark" /\ wr' = FALSE
             /\ IF closed
                THEN IF RECHECK THEN Go(x, "done") /\ result' = [result EXCEPT ![x] = "closed"] /\ UNCHANGED <<closed, pch>>
                     ELSE Go(x, "panic") /\ result' = [result EXCEPT ![x] = "panic"] /\ UNCHANGED <<closed, pch>>   \* close of nil channel
                ELSE closed' = TRUE /\ pch' = <<>> /\ Go(x, "done") /\ result' = [result EXCEPT ![x] = "returned"]
             /\ UNCHANGED <<rd, wwait, closing, peerLeft, logoutSent, logoutAnswered, pcR, pcC, ctxC, hist>>

\* ---------- sender: SendPackage = QueuePackage ; SendRemainingPackets (read lock held across the transport write)
S_Start == /\ SENDER /\ pcS = "idle" /\ CanRLock /\ rd' = rd \cup {"S"}
           /\ pcS' = (IF closed THEN "unlock" ELSE "write") /\ UNCHANGED others
S_Write == /\ pcS = "write" /\ pcS' = (IF RELOCK THEN "relock" ELSE "reset") /\ UNCHANGED <<rd, others>>     \* the write returns
S_Relock == /\ pcS = "relock" /\ CanRLock /\ pcS' = "reset" /\ UNCHANGED <<rd, others>>   \* Reset(): RLock once more
S_Reset == /\ pcS = "reset" /\ pcS' = "unlock" /\ UNCHANGED <<rd, others>>
S_Unlock == /\ pcS = "unlock" /\ rd' = rd \ {"S"} /\ pcS' = "done" /\ UNCHANGED others
SNext == S_Start \/ S_Write \/ S_Relock \/ S_Reset \/ S_Unlock
Keep(A) == A /\ UNCHANGED pcS

MainNext == R_Read \/ R_RLock \/ R_Push \/ R_PushAbort \/ R_RUnlock
     \/ C_Start \/ C_RLock \/ C_Recv \/ C_Ctx \/ C_Closing \/ C_Closed \/ C_Unlock \/ Cancel
     \/ \E x \in Closers : X_Start(x) \/ X_SendRLock(x) \/ X_Send(x) \/ X_NpRLock(x) \/ X_NpRecv(x) \/ X_NpTimeout(x)
                           \/ X_NpClosing(x) \/ X_NpClosed(x) \/ X_Signal(x) \/ X_LockWait(x) \/ X_Lock(x) \/ X_Mark(x)
Next == SNext \/ Keep(MainNext)
Fair == /\ WF_vars(S_Write) /\ WF_vars(S_Relock) /\ WF_vars(S_Reset) /\ WF_vars(S_Unlock)
        /\ WF_vars(Keep(R_Read)) /\ WF_vars(Keep(R_RLock)) /\ WF_vars(Keep(R_Push)) /\ WF_vars(Keep(R_PushAbort)) /\ WF_vars(Keep(R_RUnlock))
        /\ WF_vars(Keep(C_RLock)) /\ WF_vars(Keep(C_Recv)) /\ WF_vars(Keep(C_Ctx)) /\ WF_vars(Keep(C_Closing)) /\ WF_vars(Keep(C_Closed)) /\ WF_vars(Keep(C_Unlock))
        /\ \A x \in Closers :
             /\ WF_vars(Keep(X_SendRLock(x))) /\ WF_vars(Keep(X_Send(x))) /\ WF_vars(Keep(X_NpRLock(x))) /\ WF_vars(Keep(X_NpRecv(x))) /\ WF_vars(Keep(X_NpTimeout(x)))
             /\ WF_vars(Keep(X_NpClosing(x))) /\ WF_vars(Keep(X_NpClosed(x)))
             /\ WF_vars(Keep(X_Signal(x))) /\ WF_vars(Keep(X_LockWait(x))) /\ WF_vars(Keep(X_Lock(x))) /\ WF_vars(Keep(X_Mark(x)))
Spec == Init /\ [][Next]_vars /\ Fair

\* a send returns as well
C13_SendReturns == (pcS = "write") ~> (pcS = "done")
C13_CloseReturns == \A x \in Closers : (pcX[x] = "send_rlock") ~> (pcX[x] \in {"done", "panic"})
C13_RecvReturnsAfterCancel == (pcC \in {"rlock", "wait"} /\ ctxC = "cancelled") ~> (pcC = "done")
C13_NoDeliveryAfterClose == closed => pch = <<>>
C13_ClosedReported == (pcC = "ret_closed") => closed
\* overlapping Close calls: exactly one of them tears the channel down, the others report "closed", none crashes
C13_NoCrash == \A x \in Closers : pcX[x] # "panic"
C13_OneTeardown == Cardinality({x \in Closers : result[x] = "returned"}) <= 1
First == CHOOSE x \in Closers : TRUE
\* behaviour generation: print the external stimuli of every complete behaviour prefix
GenPrint == (GEN /\ Len(hist) > 0 /\ (pcX[First] = "done" \/ pcX[First] = "lock")) => PrintT(<<"SCN", ToJson([k |-> K, answers |-> PEERANSWERS, ops |-> hist])>>)
=============================================================================
