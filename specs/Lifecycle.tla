------------------------------ MODULE Lifecycle ------------------------------
(* Design model for C13: the lock / queue protocol of tds.Channel (tds/channel.go).                *)
(*  - sync.RWMutex with Go's writer preference: a waiting Lock blocks new RLocks                     *)
(*  - the reader goroutine (Conn.ReadFrom -> Channel.WritePacket) holds the read lock across a        *)
(*    blocking send into the bounded package queue                                                    *)
(*  - NextPackage holds the read lock across its select                                               *)
(*  - Close: Logout (send, NextPackage with a timeout) ; Lock ; mark closed ; drain ; Unlock           *)
(* CLOSESIGNAL = FALSE is the pinned design.  CLOSESIGNAL = TRUE is a repaired design in which Close   *)
(* first raises a signal that aborts the reader's blocked push and a blocked NextPackage.              *)
(* External stimuli (peer packets, calls, cancel) are recorded in `hist` for replay on the real code.  *)
EXTENDS Integers, Sequences, FiniteSets, TLC, Json
CONSTANTS K,            \* capacity of packageCh
          NPKG,         \* packages the peer sends (response abandoned by the consumer)
          PEERANSWERS,  \* does the peer answer the logout
          CLOSESIGNAL, GEN

VARIABLES rd,        \* goroutines holding the read lock
          wr,        \* closer holds the write lock
          wwait,     \* closer waits for the write lock (blocks new readers)
          closing,   \* close signal raised (only with CLOSESIGNAL)
          closed, pch, peerLeft, logoutSent, logoutAnswered,
          pcR, pcC, pcX, ctxC, result, hist
vars == <<rd, wr, wwait, closing, closed, pch, peerLeft, logoutSent, logoutAnswered, pcR, pcC, pcX, ctxC, result, hist>>

H(e) == hist' = IF GEN THEN Append(hist, e) ELSE hist
NoH == UNCHANGED hist
CanRLock == ~wr /\ ~wwait

Init == /\ rd = {} /\ wr = FALSE /\ wwait = FALSE /\ closing = FALSE /\ closed = FALSE /\ pch = <<>>
        /\ peerLeft = NPKG /\ logoutSent = FALSE /\ logoutAnswered = FALSE
        /\ pcR = "read" /\ pcC = "idle" /\ pcX = "idle" /\ ctxC = "live"
        /\ result = [c |-> "none", x |-> "none"] /\ hist = <<>>

\* ---------- reader goroutine: one package per packet
R_Read == /\ pcR = "read" /\ (peerLeft > 0 \/ (logoutSent /\ PEERANSWERS /\ ~logoutAnswered))
          /\ IF peerLeft > 0 THEN peerLeft' = peerLeft - 1 /\ UNCHANGED logoutAnswered /\ H([op |-> "peer"])
             ELSE logoutAnswered' = TRUE /\ UNCHANGED peerLeft /\ NoH
          /\ pcR' = "rlock"
          /\ UNCHANGED <<rd, wr, wwait, closing, closed, pch, logoutSent, pcC, pcX, ctxC, result>>
R_RLock == /\ pcR = "rlock" /\ CanRLock /\ rd' = rd \cup {"R"}
           /\ pcR' = IF closed THEN "runlock" ELSE "push"
           /\ UNCHANGED <<wr, wwait, closing, closed, pch, peerLeft, logoutSent, logoutAnswered, pcC, pcX, ctxC, result, hist>>
R_Push == /\ pcR = "push" /\ Len(pch) < K /\ pch' = Append(pch, "pkg") /\ pcR' = "runlock"
          /\ UNCHANGED <<rd, wr, wwait, closing, closed, peerLeft, logoutSent, logoutAnswered, pcC, pcX, ctxC, result, hist>>
\* repaired design only: a blocked push is abandoned when the channel is closing
R_PushAbort == /\ CLOSESIGNAL /\ pcR = "push" /\ closing /\ pcR' = "runlock"
               /\ UNCHANGED <<rd, wr, wwait, closing, closed, pch, peerLeft, logoutSent, logoutAnswered, pcC, pcX, ctxC, result, hist>>
R_RUnlock == /\ pcR = "runlock" /\ rd' = rd \ {"R"} /\ pcR' = "read"
             /\ UNCHANGED <<wr, wwait, closing, closed, pch, peerLeft, logoutSent, logoutAnswered, pcC, pcX, ctxC, result, hist>>

\* ---------- consumer: one NextPackage(ctx, wait = true), whose context may be cancelled
C_Start == /\ pcC = "idle" /\ pcC' = "rlock" /\ H([op |-> "next"])
           /\ UNCHANGED <<rd, wr, wwait, closing, closed, pch, peerLeft, logoutSent, logoutAnswered, pcR, pcX, ctxC, result>>
C_RLock == /\ pcC = "rlock" /\ CanRLock /\ rd' = rd \cup {"C"}
           /\ pcC' = IF closed THEN "ret_closed" ELSE "wait"
           /\ UNCHANGED <<wr, wwait, closing, closed, pch, peerLeft, logoutSent, logoutAnswered, pcR, pcX, ctxC, result, hist>>
C_Recv == /\ pcC = "wait" /\ pch # <<>> /\ pch' = Tail(pch) /\ pcC' = "unlock"
          /\ result' = [result EXCEPT !.c = "pkg"]
          /\ UNCHANGED <<rd, wr, wwait, closing, closed, peerLeft, logoutSent, logoutAnswered, pcR, pcX, ctxC, hist>>
C_Ctx == /\ pcC = "wait" /\ pch = <<>> /\ ctxC = "cancelled" /\ pcC' = "unlock"
         /\ result' = [result EXCEPT !.c = "ctxerr"]
         /\ UNCHANGED <<rd, wr, wwait, closing, closed, pch, peerLeft, logoutSent, logoutAnswered, pcR, pcX, ctxC, hist>>
C_Closing == /\ CLOSESIGNAL /\ pcC = "wait" /\ pch = <<>> /\ closing /\ pcC' = "unlock"
             /\ result' = [result EXCEPT !.c = "closed"]
             /\ UNCHANGED <<rd, wr, wwait, closing, closed, pch, peerLeft, logoutSent, logoutAnswered, pcR, pcX, ctxC, hist>>
C_Closed == /\ pcC = "ret_closed" /\ pcC' = "unlock" /\ result' = [result EXCEPT !.c = "closed"]
            /\ UNCHANGED <<rd, wr, wwait, closing, closed, pch, peerLeft, logoutSent, logoutAnswered, pcR, pcX, ctxC, hist>>
C_Unlock == /\ pcC = "unlock" /\ rd' = rd \ {"C"} /\ pcC' = "done"
            /\ UNCHANGED <<wr, wwait, closing, closed, pch, peerLeft, logoutSent, logoutAnswered, pcR, pcX, ctxC, result, hist>>
Cancel == /\ ctxC = "live" /\ pcC # "idle" /\ ctxC' = "cancelled" /\ H([op |-> "cancel"])
          /\ UNCHANGED <<rd, wr, wwait, closing, closed, pch, peerLeft, logoutSent, logoutAnswered, pcR, pcC, pcX, result>>

\* ---------- closer: Channel.Close on channel 0
X_Start == /\ pcX = "idle" /\ pcX' = "send_rlock" /\ H([op |-> "close"])
           /\ UNCHANGED <<rd, wr, wwait, closing, closed, pch, peerLeft, logoutSent, logoutAnswered, pcR, pcC, ctxC, result>>
X_SendRLock == /\ pcX = "send_rlock" /\ CanRLock /\ rd' = rd \cup {"X"} /\ pcX' = "send"
               /\ UNCHANGED <<wr, wwait, closing, closed, pch, peerLeft, logoutSent, logoutAnswered, pcR, pcC, ctxC, result, hist>>
X_Send == /\ pcX = "send" /\ logoutSent' = TRUE /\ rd' = rd \ {"X"} /\ pcX' = "np_rlock"
          /\ UNCHANGED <<wr, wwait, closing, closed, pch, peerLeft, logoutAnswered, pcR, pcC, ctxC, result, hist>>
X_NpRLock == /\ pcX = "np_rlock" /\ CanRLock /\ rd' = rd \cup {"X"} /\ pcX' = "np_wait"
             /\ UNCHANGED <<wr, wwait, closing, closed, pch, peerLeft, logoutSent, logoutAnswered, pcR, pcC, ctxC, result, hist>>
X_NpRecv == /\ pcX = "np_wait" /\ pch # <<>> /\ pch' = Tail(pch) /\ rd' = rd \ {"X"} /\ pcX' = "signal"
            /\ UNCHANGED <<wr, wwait, closing, closed, peerLeft, logoutSent, logoutAnswered, pcR, pcC, ctxC, result, hist>>
X_NpTimeout == /\ pcX = "np_wait" /\ pch = <<>> /\ rd' = rd \ {"X"} /\ pcX' = "signal"   \* the 1-minute logout context expires
               /\ UNCHANGED <<wr, wwait, closing, closed, pch, peerLeft, logoutSent, logoutAnswered, pcR, pcC, ctxC, result, hist>>
X_Signal == /\ pcX = "signal" /\ closing' = CLOSESIGNAL /\ pcX' = "lock"
            /\ UNCHANGED <<rd, wr, wwait, closed, pch, peerLeft, logoutSent, logoutAnswered, pcR, pcC, ctxC, result, hist>>
X_LockWait == /\ pcX = "lock" /\ ~wwait /\ wwait' = TRUE
              /\ UNCHANGED <<rd, wr, closing, closed, pch, peerLeft, logoutSent, logoutAnswered, pcR, pcC, pcX, ctxC, result, hist>>
X_Lock == /\ pcX = "lock" /\ wwait /\ rd = {} /\ wr' = TRUE /\ wwait' = FALSE /\ pcX' = "mark"
          /\ UNCHANGED <<rd, closing, closed, pch, peerLeft, logoutSent, logoutAnswered, pcR, pcC, ctxC, result, hist>>
X_Mark == /\ pcX = "mark" /\ closed' = TRUE /\ pch' = <<>> /\ wr' = FALSE /\ pcX' = "done"
          /\ result' = [result EXCEPT !.x = "returned"]
          /\ UNCHANGED <<rd, wwait, closing, peerLeft, logoutSent, logoutAnswered, pcR, pcC, ctxC, hist>>

Next == R_Read \/ R_RLock \/ R_Push \/ R_PushAbort \/ R_RUnlock
     \/ C_Start \/ C_RLock \/ C_Recv \/ C_Ctx \/ C_Closing \/ C_Closed \/ C_Unlock \/ Cancel
     \/ X_Start \/ X_SendRLock \/ X_Send \/ X_NpRLock \/ X_NpRecv \/ X_NpTimeout \/ X_Signal \/ X_LockWait \/ X_Lock \/ X_Mark
Fair == /\ WF_vars(R_Read) /\ WF_vars(R_RLock) /\ WF_vars(R_Push) /\ WF_vars(R_PushAbort) /\ WF_vars(R_RUnlock)
        /\ WF_vars(C_RLock) /\ WF_vars(C_Recv) /\ WF_vars(C_Ctx) /\ WF_vars(C_Closing) /\ WF_vars(C_Closed) /\ WF_vars(C_Unlock)
        /\ WF_vars(X_SendRLock) /\ WF_vars(X_Send) /\ WF_vars(X_NpRLock) /\ WF_vars(X_NpRecv) /\ WF_vars(X_NpTimeout)
        /\ WF_vars(X_Signal) /\ WF_vars(X_LockWait) /\ WF_vars(X_Lock) /\ WF_vars(X_Mark)
Spec == Init /\ [][Next]_vars /\ Fair

C13_CloseReturns == (pcX = "send_rlock") ~> (pcX = "done")
C13_RecvReturnsAfterCancel == (pcC \in {"rlock", "wait"} /\ ctxC = "cancelled") ~> (pcC = "done")
C13_NoDeliveryAfterClose == closed => pch = <<>>
C13_ClosedReported == (pcC = "ret_closed") => closed
\* behaviour generation: print the external stimuli of every complete behaviour prefix
GenPrint == (GEN /\ Len(hist) > 0 /\ (pcX = "done" \/ pcX = "lock")) => PrintT(<<"SCN", ToJson([k |-> K, answers |-> PEERANSWERS, ops |-> hist])>>)
=============================================================================
