------------------------------- MODULE TxPath -------------------------------
(* Design model for property C01: how tds.Channel turns queued packages into TDS packets          *)
(* (QueuePackage / SendRemainingPackets / SendPackage -> sendPackets -> sendPacket, tds/channel.go) *)
(* on top of the code-shaped packet queue (PQOps).  Bytes of a message are numbered 1..n.         *)
(* FIXED = FALSE is the algorithm as pinned (no EOM when the message length is an exact multiple  *)
(* of the body size); FIXED = TRUE adds the repair (an empty EOM packet terminates a message whose *)
(* packets were all sent full).                                                                   *)
(* ABORTS = TRUE adds calls made with a cancelled context (sendPackets checks the contexts before *)
(* every queued packet and returns; its deferred DiscardUntilCurrentPosition still runs):          *)
(*   QueueAbort  QueuePackage encodes into queueTx, writes nothing, fails; the unsent full packets *)
(*               in front of the write position are discarded, so the message is broken (the       *)
(*               caller has the error) and is not judged when it is flushed later;                 *)
(*   FlushAbort  SendRemainingPackets writes nothing and fails; RESETONERR = TRUE is the code      *)
(*               (defer Reset()), FALSE is the variant that resets only after a successful flush   *)
(*               and leaves the partly filled packet for the next message;                          *)
(*               EOMCTX = TRUE is the repaired code that also checks the contexts before the       *)
(*               terminating empty packet, FALSE writes it with a cancelled context (C13).         *)
EXTENDS PQOps, TLC, Json

CONSTANTS Bodies, MaxLen, MaxMsgs, MaxSteps, FIXED, GEN, ABORTS, RESETONERR, EOMCTX, KEEPOPEN
\* KEEPOPEN = TRUE is the code: Channel.Reset leaves txMsgOpen alone, so that a flush repeated after one that
\* was given up still terminates the message on the wire; FALSE is the variant whose Reset clears it.

VARIABLES q,        \* queueTx
          body,     \* packet body size in force (Conn.PacketBodySize())
          txOpen,   \* packets of the current message were sent and none carried EOM yet
          wire,     \* packets of the current message seen on the transport: [n, len, eom, bs]
          queued,   \* bytes queued in the current message
          done,     \* completed messages: [total, wire]
          broken,   \* a call of the current message failed: the message is not judged
          abandoned,\* the previous message was given up by a failed flush (txOpen may be stale)
          cwrote,   \* packets written by calls that had a cancelled context
          wopen,    \* packets reached the transport since the last EOM packet
          steps, hist
vars == <<q, body, txOpen, wire, queued, done, broken, abandoned, cwrote, wopen, steps, hist>>

H(e) == hist' = IF GEN THEN Append(hist, e) ELSE hist
Step == steps < MaxSteps /\ steps' = steps + 1

Init == /\ q = PQ_Empty /\ body \in Bodies /\ txOpen = FALSE /\ wire = <<>> /\ queued = 0
        /\ done = <<>> /\ steps = 0 /\ hist = <<>> /\ broken = FALSE /\ abandoned = FALSE /\ cwrote = 0 /\ wopen = FALSE

\* sendPacket: EOM iff the data portion is not exactly one body
Pkt(data) == [n |-> Len(data), len |-> 8 + Len(data), eom |-> Len(data) # body, bs |-> data]

\* sendPackets(onlyFull): returns the packets written, in order (the loop of tds/channel.go)
RECURSIVE SendLoop(_, _, _, _)
SendLoop(x, i, onlyFull, acc) ==      \* i = 0-based packet index
    IF i >= Len(x.pk) THEN acc
    ELSE LET data == x.pk[i + 1].data IN
         IF i = x.ip /\ x.id < body
         THEN IF onlyFull THEN acc ELSE Append(acc, Pkt(SubSeq(data, 1, x.id)))
         ELSE SendLoop(x, i + 1, onlyFull, Append(acc, Pkt(data)))
Sent(x, onlyFull) == SendLoop(x, 0, onlyFull, <<>>)
OpenAfter(ps, was) == IF ps = <<>> THEN was ELSE ~ps[Len(ps)].eom
WOpenAfter(ps) == OpenAfter(ps, wopen)

Queue(n) ==
    /\ Step /\ n \in 1..MaxLen /\ Len(done) < MaxMsgs
    /\ LET bs == [i \in 1..n |-> queued + i]
           q1 == PQ_Write(q, bs, body)
           ps == Sent(q1, TRUE)
       IN /\ q' = PQ_Discard(q1)
          /\ wire' = wire \o ps
          /\ txOpen' = OpenAfter(ps, txOpen)
          /\ queued' = queued + n
          /\ wopen' = WOpenAfter(ps)
          /\ H([op |-> "Queue", n |-> n, body |-> body, npk |-> Len(ps), ctx |-> ""])
    /\ UNCHANGED <<body, done, broken, abandoned, cwrote>>

Flush ==
    /\ Step /\ Len(done) < MaxMsgs
    /\ LET ps == Sent(q, FALSE)
           open1 == OpenAfter(ps, txOpen)
           ps2 == IF FIXED /\ open1 THEN Append(ps, [n |-> 0, len |-> 8, eom |-> TRUE, bs |-> <<>>]) ELSE ps
       IN /\ wire' = <<>>
          /\ done' = IF broken THEN done ELSE Append(done, [total |-> queued, body |-> body, wire |-> wire \o ps2])
          /\ txOpen' = IF FIXED THEN FALSE ELSE open1
          /\ wopen' = WOpenAfter(ps2)
          /\ H([op |-> "Flush", n |-> 0, body |-> body, npk |-> Len(ps2), ctx |-> ""])
    /\ q' = PQ_Empty /\ queued' = 0              \* SendRemainingPackets: defer Reset()
    /\ broken' = FALSE /\ abandoned' = FALSE
    /\ UNCHANGED <<body, cwrote>>

\* QueuePackage with a cancelled context: the package is encoded into queueTx, the first loop
\* iteration of sendPackets returns the context's error, the deferred discard drops every packet in
\* front of the write position although none was sent
QueueAbort(n) ==
    /\ ABORTS /\ Step /\ n \in 1..MaxLen /\ Len(done) < MaxMsgs
    /\ LET bs == [i \in 1..n |-> queued + i]
           q1 == PQ_Write(q, bs, body)
       IN q' = PQ_Discard(q1)
    /\ queued' = queued + n /\ broken' = TRUE
    /\ H([op |-> "Queue", n |-> n, body |-> body, npk |-> 0, ctx |-> "cancelled"])
    /\ UNCHANGED <<body, txOpen, wire, done, abandoned, cwrote, wopen>>

\* SendRemainingPackets with a cancelled context
FlushAbort ==
    /\ ABORTS /\ Step /\ Len(done) < MaxMsgs
    /\ LET err == Len(q.pk) > 0 \/ (FIXED /\ txOpen /\ EOMCTX)   \* a context check was reached
           ps == IF ~err /\ FIXED /\ txOpen THEN <<[n |-> 0, len |-> 8, eom |-> TRUE, bs |-> <<>>]>> ELSE <<>>
       IN /\ cwrote' = cwrote + Len(ps)
          /\ done' = IF err \/ broken THEN done ELSE Append(done, [total |-> queued, body |-> body, wire |-> wire \o ps])
          /\ txOpen' = IF ps # <<>> THEN FALSE ELSE IF err /\ ~KEEPOPEN THEN FALSE ELSE txOpen
          /\ wopen' = WOpenAfter(ps)
          /\ abandoned' = err
          /\ q' = IF err /\ ~RESETONERR THEN PQ_Discard(q) ELSE PQ_Empty
          /\ H([op |-> "Flush", n |-> 0, body |-> body, npk |-> Len(ps), ctx |-> "cancelled"])
    /\ wire' = <<>> /\ queued' = 0 /\ broken' = FALSE
    /\ UNCHANGED body

\* the server renegotiates the packet size between two messages
SizeChange(b) ==
    /\ Step /\ queued = 0 /\ b \in Bodies /\ b # body
    /\ body' = b /\ H([op |-> "Size", n |-> 0, body |-> b, npk |-> 0, ctx |-> ""])
    /\ UNCHANGED <<q, txOpen, wire, queued, done, broken, abandoned, cwrote, wopen>>

Next == (\E n \in 1..MaxLen : Queue(n) \/ QueueAbort(n)) \/ Flush \/ FlushAbort \/ (\E b \in Bodies : SizeChange(b))
Spec == Init /\ [][Next]_vars

---------------------------------------------------------------------------
RECURSIVE Cat(_, _)
Cat(ps, i) == IF i = 0 THEN <<>> ELSE Cat(ps, i - 1) \o ps[i].bs
MsgOK(m) ==
    LET w == m.wire IN
    /\ Cat(w, Len(w)) = [i \in 1..m.total |-> i]                 \* C01_BodiesConcatenate
    /\ \A i \in 1..Len(w) : w[i].len = 8 + w[i].n                  \* C01_HeaderLen
    /\ (m.total > 0 => Len(w) > 0)
    /\ \A i \in 1..Len(w) : w[i].eom <=> i = Len(w)               \* C01_EOMExactlyOnLast
    /\ \A i \in 1..Len(w) : w[i].n <= m.body /\ (i < Len(w) => w[i].n = m.body)   \* C01_AllButLastFull
C01_Messages == \A k \in 1..Len(done) : MsgOK(done[k])
C01_AllButLastFull == \A i \in 1..Len(wire) : ~wire[i].eom /\ wire[i].n = body    \* while the message is open
C01_NothingLeftBehind == queued = 0 => (q = PQ_Empty /\ wire = <<>> /\ (FIXED /\ ~abandoned => ~txOpen))
\* C13: a send with a cancelled context writes nothing
C13_CancelledWritesNothing == cwrote = 0
\* a successful flush leaves no message open on the wire, also not one whose first flush was given up
C01_FlushTerminates == (FIXED /\ queued = 0 /\ ~abandoned /\ ~broken) => ~wopen
\* sizes never exceed the packet size in force (checked on open messages; completed ones by MsgOK + full)
C01_SizeBound == \A i \in 1..Len(wire) : wire[i].len <= 8 + body

GenPrint == (GEN /\ (steps = MaxSteps \/ Len(done) = MaxMsgs)) => PrintT(<<"SCN", ToJson(hist)>>)
View == <<q, body, txOpen, wire, queued, done, broken, abandoned, cwrote, wopen, steps>>
=============================================================================
