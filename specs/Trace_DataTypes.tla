--------------------------- MODULE Trace_DataTypes ---------------------------
(* Trace validation for C04 and C05: every event is one evaluation of the real codecs, judged by the    *)
(* data type specification (DataTypes.tla) that TLC evaluates on it.                                     *)
(*  RT    t, n, v, b, v2, err : DataType.Bytes(v, n) = b, DataType.GoValue(b) = v2                        *)
(*  Dec   t, b, v, err        : DataType.GoValue(b) = v for bytes made by the harness (a server's bytes)  *)
(*  Pkg   t, n, prec, scale, v, w, pb, r, v2 : the value behind its format in a PARAMFMT / PARAMS pair:   *)
(*        written by the library (pb = the PARAMS package), read back by the library; client = TRUE: the  *)
(*        format is the client's own (LookupFieldFmtData), written and read back by the library as well   *)
(*  Cal   fn, v, b            : the calendar helpers of asetime on a civil date-time / a microsecond count *)
(*  Tab   t, size, lb, nt     : ByteSize / LengthBytes / NullableType of the data type                     *)
(*  Rows  t, row, vs, v2s, r  : several ROW (PARAMS) packages behind one ROWFMT2 (PARAMFMT), read one after  *)
(*        the other with the channel's chaining; the values are collected when all have been read          *)
(*  NullBack t, b, err       : GoValue(zero length) handed back to Bytes                                   *)
(*  XRT   t, nt, v, b, v2, err: Bytes as the fixed-length type t, GoValue as its nullable variant nt       *)
(* JUDGE = C04: the round trips return the value (Same); JUDGE = C05: the bytes are the TDS layout (Rel), *)
(* in both directions, and the calendar helpers agree with the calendar of the specification.            *)
EXTENDS TraceBase, DataTypes
VARIABLES l
vars == <<l>>
Judge == IF "JUDGE" \in DOMAIN IOEnv THEN IOEnv.JUDGE ELSE "ALL"
J04 == Judge \in {"C04", "ALL"}
J05 == Judge \in {"C05", "ALL"}
E == Trace[l]
IsEvent(e) == l <= Len(Trace) /\ Trace[l].ev = e /\ l' = l + 1
Init == l = 1 /\ HWInit
T_Reset == IsEvent("Reset")

\* DATETIMN holds minutes (4 bytes) or ticks (8 bytes)
SameN(t, n, v, w) == IF TypeTable[t].cl = "dtn" /\ n = 8 /\ v.k = "tm" /\ w.k = "tm" THEN SameTod(v, w, 3334, DayDiff(v, w))
                     ELSE Same(t, v, w)
\* the length of the column selects the layout of MONEYN and DATETIMN
LenOK(t, n, b) == (TypeTable[t].cl \in {"money", "dtn"} /\ n > 0 /\ b # <<>>) => Len(b) = n

T_RT == /\ IsEvent("RT") /\ E.t \in Types /\ E.err = ""
        /\ E.stable                        \* encoding this value left the bytes of the value before it alone
        /\ (J04 => SameN(E.t, E.n, E.v, E.v2))
        /\ (J05 => Rel(E.t, E.v, E.b) /\ Rel(E.t, E.v2, E.b) /\ LenOK(E.t, E.n, E.b))
T_Dec == /\ IsEvent("Dec") /\ E.t \in Types
         /\ (J05 => E.err = "" /\ Rel(E.t, E.v, E.b))

\* the PARAMS package with one field: token, length prefix (little endian, lb bytes) unless fixed, data

PkgData(t, pb) == LET lb == TypeTable[t].lb IN IF lb = -1 THEN SubSeq(pb, 2, Len(pb)) ELSE SubSeq(pb, 2 + lb, Len(pb))
PkgFramed(t, pb) == LET lb == TypeTable[t].lb IN
                    /\ Len(pb) >= 1 /\ pb[1] = 215
                    /\ (lb # -1 => Len(pb) >= 1 + lb /\ Pad(IntLE(Len(pb) - 1 - lb), lb) = SubSeq(pb, 2, 1 + lb))
T_Pkg == /\ IsEvent("Pkg") /\ E.t \in Types /\ E.w = "ok" /\ E.r = "ok"
         /\ (J04 => /\ SameN(E.t, E.n, E.v, E.v2)
                    /\ (E.v2.k = "dec" /\ TypeTable[E.t].cl = "dec" => E.v2.prec = E.prec /\ E.v2.scale = E.scale))
         /\ (J05 => PkgFramed(E.t, E.pb) /\ Rel(E.t, E.v, PkgData(E.t, E.pb)) /\ LenOK(E.t, E.n, PkgData(E.t, E.pb)))

\* asetime: microseconds since 0000-01-01 (the count BIGDATETIME carries), as 8 little-endian bytes
CalRel(v, b) == v.k = "tm" /\ ValidTm(v) /\ v.ns % 1000 = 0 /\ b = Micros(Days0000(v), Sod(v), Us(v))
\* DurationFromTime: microseconds since midnight
TodRel(v, b) == v.k = "tm" /\ ValidTm(v) /\ v.ns % 1000 = 0 /\ b = Micros(0, Sod(v), Us(v))
T_Cal == /\ IsEvent("Cal")
         /\ (J05 => E.err = "" /\ IF E.fn = "DFT" THEN TodRel(E.v, E.b) ELSE CalRel(E.v, E.b))
T_Tab == /\ IsEvent("Tab")
         /\ (J05 /\ E.t \in Types => E.size = TypeTable[E.t].size /\ E.lb = TypeTable[E.t].lb /\ E.nt = NullableOf(E.t))
\* a value written as a fixed-length type and read as its nullable variant (what a server does with a
\* parameter for a nullable column, and the other way round)
T_XRT == /\ IsEvent("XRT") /\ E.t \in Types /\ E.nt \in Types /\ E.err = ""
         /\ (J04 => Same(E.t, E.v, E.v2))
         /\ (J05 => Rel(E.t, E.v, E.b) /\ Rel(E.nt, E.v2, E.b))
\* what the library returns for NULL is written as NULL again (zero length)
T_NullBack == /\ IsEvent("NullBack") /\ E.t \in Types /\ Nullable(E.t)
              /\ (J04 => E.err = "" /\ E.b = <<>>)
\* several data packages behind one format: every one keeps its own values
T_Rows == /\ IsEvent("Rows") /\ E.t \in Types
          /\ (J04 => /\ E.r = "ok" /\ Len(E.v2s) = Len(E.vs)
                     /\ \A i \in 1..Len(E.vs) : Same(E.t, E.vs[i], E.v2s[i]))
Next == T_Rows \/ T_NullBack \/ T_Reset \/ T_RT \/ T_Dec \/ T_Pkg \/ T_Cal \/ T_Tab \/ T_XRT
Spec == Init /\ [][Next]_vars
HW == HWOf(l)
=============================================================================
