--------------------------- MODULE Trace_DataTypes ---------------------------
(* Trace validation for C04 and C05: every event is one evaluation of the real codecs, judged by the    *)
(* data type specification (DataTypes.tla) that TLC evaluates on it.                                     *)
(*  RT    t, n, v, b, v2, err : DataType.Bytes(v, n) = b, DataType.GoValue(b) = v2                        *)
(*  Dec   t, b, v, err        : DataType.GoValue(b) = v for bytes made by the harness (a server's bytes)  *)
(*  Pkg   t, n, prec, scale, v, w, pb, r, v2 : the value behind its format in a PARAMFMT / PARAMS pair:   *)
(*        written by the library (pb = the PARAMS package), read back by the library                      *)
(*  Cal   fn, v, b            : the calendar helpers of asetime on a civil date-time / a microsecond count *)
(*  Tab   t, size, lb         : ByteSize / LengthBytes of the data type                                    *)
(* JUDGE = C04: the round trips return the value (Same); JUDGE = C05: the bytes are the TDS layout (Rel), *)
(* in both directions, and the calendar helpers agree with the calendar of the specification.            *)
EXTENDS TraceBase, DataTypes
VARIABLES l
vars == <<l>>
Judge == IF "JUDGE" \in DOMAIN IOEnv THEN IOEnv.JUDGE ELSE "ALL"
J04 == Judge \in {"C04", "ALL"}
J05 == Judge \in {"C05", "ALL"}
E == Trace[l]
IsEvent(e) == l <= Len(Trace) /\ Trace[l].ev = e /\ l' = l + 1
Init == l = 1 /\ HWInit
T_Reset == IsEvent("Reset")

\* DATETIMN holds minutes (4 bytes) or ticks (8 bytes)
SameN(t, n, v, w) == IF TypeTable[t].cl = "dtn" /\ n = 8 /\ v.k = "tm" /\ w.k = "tm" THEN SameTod(v, w, 3334, DayDiff(v, w))
                     ELSE Same(t, v, w)
\* the length of the column selects the layout of MONEYN and DATETIMN
LenOK(t, n, b) == (TypeTable[t].cl \in {"money", "dtn"} /\ n > 0 /\ b # <<>>) => Len(b) = n

T_RT == /\ IsEvent("RT") /\ E.t \in Types /\ E.err = ""
        /\ (J04 => SameN(E.t, E.n, E.v, E.v2))
        /\ (J05 => Rel(E.t, E.v, E.b) /\ Rel(E.t, E.v2, E.b) /\ LenOK(E.t, E.n, E.b))
T_Dec == /\ IsEvent("Dec") /\ E.t \in Types
         /\ (J05 => E.err = "" /\ Rel(E.t, E.v, E.b))

\* the PARAMS package with one field: token, length prefix (little endian, lb bytes) unless fixed, data

PkgData(t, pb) == LET lb == TypeTable[t].lb IN IF lb = -1 THEN SubSeq(pb, 2, Len(pb)) ELSE SubSeq(pb, 2 + lb, Len(pb))
PkgFramed(t, pb) == LET lb == TypeTable[t].lb IN
                    /\ Len(pb) >= 1 /\ pb[1] = 215
                    /\ (lb # -1 => Len(pb) >= 1 + lb /\ Pad(IntLE(Len(pb) - 1 - lb), lb) = SubSeq(pb, 2, 1 + lb))
T_Pkg == /\ IsEvent("Pkg") /\ E.t \in Types /\ E.w = "ok" /\ E.r = "ok"
         /\ (J04 => /\ SameN(E.t, E.n, E.v, E.v2)
                    /\ (E.v2.k = "dec" /\ TypeTable[E.t].cl = "dec" => E.v2.prec = E.prec /\ E.v2.scale = E.scale))
         /\ (J05 => PkgFramed(E.t, E.pb) /\ Rel(E.t, E.v, PkgData(E.t, E.pb)) /\ LenOK(E.t, E.n, PkgData(E.t, E.pb)))

\* asetime: microseconds since 0000-01-01 (the count BIGDATETIME carries), as 8 little-endian bytes
CalRel(v, b) == v.k = "tm" /\ ValidTm(v) /\ v.ns % 1000 = 0 /\ b = Micros(Days0000(v), Sod(v), Us(v))
T_Cal == /\ IsEvent("Cal")
         /\ (J05 => E.err = "" /\ CalRel(E.v, E.b))
T_Tab == /\ IsEvent("Tab")
         /\ (J05 /\ E.t \in Types => E.size = TypeTable[E.t].size /\ E.lb = TypeTable[E.t].lb)
Next == T_Reset \/ T_RT \/ T_Dec \/ T_Pkg \/ T_Cal \/ T_Tab
Spec == Init /\ [][Next]_vars
HW == HWOf(l)
=============================================================================
