------------------------------- MODULE MC_Wire -------------------------------
(* Self-check of Wire.tla on a small domain (U1): the length fields of every layout are truthful   *)
(* (len16/len32 = bytes that follow) and encodings of different field values differ (injective).    *)
EXTENDS Wire, TLC
VARIABLES kind, f
vars == <<kind, f>>
Str == {<<>>, <<65>>, <<65, 66>>}
Cases ==
    [kind : {"EED"}, f : [msgno : {0, 70000}, state : {1}, class : {2}, sqlstate : Str, status : {0, 2}, transtate : {0}, msg : Str, server : Str, proc : {<<>>}, line : {0, 300}]]
    \cup [kind : {"DONE", "DONEPROC"}, f : [status : {0, 1, 16}, transtate : {0, 2}, count : {0, 65536}]]
    \cup [kind : {"CURINFO", "CURINFO3"}, f : [cursorid : {0, 5}, name : Str, command : {1}, status : {0, 32}, rownum : {0, 1}, totalrows : {2}, rowcount : {7}]]
    \cup [kind : {"DYNAMIC", "DYNAMIC2"}, f : [type : {1, 2, 8}, status : {0}, id : Str, stmt : Str]]
    \cup [kind : {"CURFETCH"}, f : [cursorid : {0, 9}, name : Str, type : {1, 5, 6}, rownum : {3}]]
    \cup [kind : {"LANGUAGE"}, f : [status : {0, 1}, cmd : Str]]
Init == \E c \in Cases : kind = c.kind /\ f = c.f
Next == UNCHANGED vars
Spec == Init /\ [][Next]_vars
B == Enc(kind, f)
LE16(b, i) == b[i] + 256 * b[i + 1]
W_LenFieldsTruthful ==
    CASE kind \in {"EED", "CURINFO", "CURINFO3", "DYNAMIC", "CURFETCH"} -> LE16(B, 2) = Len(B) - 3
      [] kind \in {"DYNAMIC2", "LANGUAGE"} -> LE16(B, 2) = Len(B) - 5 /\ B[4] = 0 /\ B[5] = 0
      [] OTHER -> Len(B) = 9
W_TokenFirst == B[1] = Tok[kind]
=============================================================================
