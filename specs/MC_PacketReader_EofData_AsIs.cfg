SPECIFICATION Spec
CONSTANTS
  Streams <- MCStreams
  MaxChunk = 9
  HEADERFULL = TRUE
  CHECKLEN = TRUE
  WRAP = 12
  EOFOK = FALSE
  FailKinds = {"none", "eof", "err", "eofd"}
INVARIANTS C02_PacketsInOrder C14_OnlyCompletePackets C02_NoErrorFromPartition C14_CompleteBeforeError
PROPERTIES C14_ErrorEventually
CHECK_DEADLOCK FALSE
