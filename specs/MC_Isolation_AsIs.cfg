SPECIFICATION Spec
CONSTANTS ASIS = TRUE
INVARIANTS C20_Forward C20_RoundTrip C20_Deterministic
CHECK_DEADLOCK FALSE
