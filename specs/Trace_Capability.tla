--------------------------- MODULE Trace_Capability ---------------------------
(* Trace validation for C19: every event is one evaluation of the real capability.Target on a set *)
(* of capabilities (ranges as grid positions, 0 = bound missing, -1 = unparsable bound) and a      *)
(* version (position or -1); out = "error" or the sequence of Has() answers.                        *)
EXTENDS TraceBase
VARIABLES l
vars == <<l>>
E == Trace[l]
IsEvent(e) == l <= Len(Trace) /\ Trace[l].ev = e /\ l' = l + 1
Init == l = 1 /\ HWInit
T_Reset == IsEvent("Reset")

Unparsable(r) == r[1] = -1 \/ r[2] = -1
Inverted(r) == r[1] > 0 /\ r[2] > 0 /\ r[1] >= r[2]
HasBound(r) == r[1] # 0 \/ r[2] # 0
Bad(r, v) == Unparsable(r) \/ Inverted(r) \/ (v = -1 /\ HasBound(r))
In(r, v) == HasBound(r) /\ (r[1] = 0 \/ r[1] <= v) /\ (r[2] = 0 \/ v < r[2])
MustError(caps, v) == \E c \in 1..Len(caps) : \E i \in 1..Len(caps[c]) :
                         Bad(caps[c][i], v) /\ \A j \in 1..(i - 1) : ~In(caps[c][j], v)
MayError(caps, v) == \E c \in 1..Len(caps) : \E i \in 1..Len(caps[c]) : Bad(caps[c][i], v)
Member(caps, v, c) == \E i \in 1..Len(caps[c]) : ~Bad(caps[c][i], v) /\ In(caps[c][i], v)

T_Eval == /\ IsEvent("Eval")
          /\ IF E.err THEN MayError(E.caps, E.v)                               \* never an error out of nothing
             ELSE /\ ~MustError(E.caps, E.v)                                   \* never a silent answer
                  /\ Len(E.has) = Len(E.caps)
                  /\ \A c \in 1..Len(E.caps) : E.has[c] = Member(E.caps, E.v, c)   \* exactly inside the ranges
                  /\ ~E.foreign                                                 \* a capability never registered is never reported
\* the order-preserving grid table itself: cmp(grid[a], grid[b]) must be sign(a-b)
T_Grid == /\ IsEvent("Grid") /\ E.sign = (IF E.a < E.b THEN -1 ELSE IF E.a > E.b THEN 1 ELSE 0)
Next == T_Reset \/ T_Eval \/ T_Grid
Spec == Init /\ [][Next]_vars
HW == HWOf(l)
=============================================================================
