SPECIFICATION Spec
CONSTANTS
  K = 2
  NPKG = 4
  PEERANSWERS = TRUE
  CLOSESIGNAL = TRUE
  Closers = {"X"}
  RECHECK = TRUE
  GEN = FALSE
INVARIANTS C13_NoDeliveryAfterClose C13_ClosedReported
PROPERTIES C13_CloseReturns C13_RecvReturnsAfterCancel
CHECK_DEADLOCK FALSE
