SPECIFICATION Spec
CONSTANTS
  MaxBody = 3
  Shapes <- ShapesQ2
  Rounds = 2
  RESETLAST = TRUE
  HDRDATA = FALSE
  MaxEmpty = 1
  GEN = FALSE
INVARIANTS C02_DeliveredIsCompletePrefix C03_AtEOM C03_NoCarryOver C11_HooksOnce C11_NeverDelivered NoDesync NoSpurious
VIEW View
CHECK_DEADLOCK FALSE
