SPECIFICATION Spec
CONSTANTS
  FIXED = TRUE
  KeyChars = {"a"}
  ValChars = {"b", " ", "="}
  MaxItems = 2
  MaxVal = 3
INVARIANTS C17_Total C17_TokensRoundTrip
CHECK_DEADLOCK FALSE
