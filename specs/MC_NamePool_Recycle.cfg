SPECIFICATION Spec
CONSTANTS Procs = {1, 2}
 MaxId = 3
 NILCHECK = TRUE
INVARIANTS NeverRecycled
CHECK_DEADLOCK FALSE
