SPECIFICATION Spec
CONSTANTS
  Bodies = {2, 3, 4}
  MaxBytes = 24
  MaxSteps = 12
  MaxRead = 6
  GEN = TRUE
CONSTRAINT GenPrint
CHECK_DEADLOCK FALSE
