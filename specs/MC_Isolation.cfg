SPECIFICATION Spec
CONSTANTS ASIS = FALSE
INVARIANTS C20_Forward C20_RoundTrip C20_Deterministic
CHECK_DEADLOCK FALSE
