SPECIFICATION Spec
INVARIANTS W_LenFieldsTruthful W_TokenFirst
CHECK_DEADLOCK FALSE
