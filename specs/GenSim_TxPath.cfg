SPECIFICATION Spec
CONSTANTS
  Bodies = {2, 3, 4, 5}
  MaxLen = 16
  MaxMsgs = 4
  MaxSteps = 12
  FIXED = TRUE
  ABORTS = FALSE
  RESETONERR = TRUE
  EOMCTX = TRUE
  KEEPOPEN = TRUE
  GEN = TRUE
CONSTRAINT GenPrint
CHECK_DEADLOCK FALSE
