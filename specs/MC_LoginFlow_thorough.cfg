SPECIFICATION Spec
CONSTANTS K = 2
 GEN = FALSE
INVARIANTS TypeOK C08_ModelMeetsContract
PROPERTY C08_Terminates
CHECK_DEADLOCK FALSE
