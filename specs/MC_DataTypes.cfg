INIT Init
NEXT Next
CONSTANT YEARS <- QuickYears
