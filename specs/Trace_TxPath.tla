---------------------------- MODULE Trace_TxPath ----------------------------
(* Trace validation for C01 (contract level): what an observer of the transport may see while a    *)
(* client queues and flushes packages on a channel.  Nothing here says *how* the library           *)
(* packetises (hold the last full packet back, or terminate with an empty EOM packet - both are     *)
(* accepted); it only states the C01 contract on the packets observed.                              *)
(*   ps      packet size in force: the size the peer announced by ENVCHANGE(PACKSIZE)                *)
(*   chan, nr  channel id and next packet number (channels > 0)                                      *)
(*   queued  bytes queued in the current message (harness input)                                     *)
(*   wired   body bytes seen on the transport in the current message                                 *)
(*   closed  a packet with EOM was seen in the current message                                       *)
(*   phase   idle / queue (inside QueuePackage) / flush (inside SendRemainingPackets or SendPackage) *)
(*   typ     header type the channel had when the running call started                               *)
(*   judged  FALSE after a call in the current message failed (residue: outside C01's quantifier)    *)
(*   wopen   the transport has seen packets since the last EOM packet: a message is open on the wire  *)
(*           (also one that the client gave up with a failed flush)                                   *)
EXTENDS TraceBase

VARIABLES l, ps, chan, nr, queued, wired, closed, phase, typ, judged, cancelled, failing, wopen
vars == <<l, ps, chan, nr, queued, wired, closed, phase, typ, judged, cancelled, failing, wopen>>

\* The property under judgement (environment variable JUDGE): C01 judges the packet sequence, C13 the
\* sends with a cancelled context, C14 the calls that run into a failing transport.
Judge == IF "JUDGE" \in DOMAIN IOEnv THEN IOEnv.JUDGE ELSE "ALL"
J01 == Judge \in {"C01", "ALL"}
J13 == Judge \in {"C13", "ALL"}
J14 == Judge \in {"C14", "ALL"}
J11 == Judge \in {"C11", "ALL"}
J12 == Judge \in {"C12", "ALL"}

E == Trace[l]
IsEvent(e) == l <= Len(Trace) /\ Trace[l].ev = e /\ l' = l + 1

Init == /\ l = 1 /\ ps = 512 /\ chan = 0 /\ nr = 0 /\ queued = 0 /\ wired = 0 /\ closed = FALSE
        /\ phase = "idle" /\ typ = 15 /\ judged = TRUE /\ cancelled = FALSE /\ failing = FALSE /\ wopen = FALSE /\ HWInit

T_Reset == /\ IsEvent("Reset")
           /\ ps' = 512 /\ chan' = 0 /\ nr' = 0 /\ queued' = 0 /\ wired' = 0 /\ closed' = FALSE
           /\ phase' = "idle" /\ typ' = 15 /\ judged' = TRUE /\ cancelled' = FALSE /\ failing' = FALSE /\ wopen' = FALSE
T_Chan == /\ IsEvent("Chan") /\ chan' = E.id /\ ps' = E.ps /\ typ' = E.typ /\ nr' = E.nr
          /\ UNCHANGED <<queued, wired, closed, phase, judged, cancelled, failing, wopen>>
\* the peer renegotiated the packet size between two messages
T_PacketSize == /\ IsEvent("PacketSize") /\ phase = "idle" /\ queued = 0
                \* inside the range a server may negotiate the size in force is the announced one; outside
                \* of it (the tiny sizes of the model's scope) it is what the connection reports
                /\ ps' = IF E.ps >= 256 /\ E.ps <= 65535 THEN E.ps ELSE E.applied
                \* C11: every environment change is applied - on whatever channel it arrives
                /\ (J11 /\ E.ps >= 256 /\ E.ps <= 65535 => E.applied = E.ps)
                /\ UNCHANGED <<chan, nr, queued, wired, closed, phase, typ, judged, cancelled, failing, wopen>>
T_SetType == /\ IsEvent("SetType") /\ phase = "idle"
             /\ UNCHANGED <<ps, chan, nr, queued, wired, closed, phase, typ, judged, cancelled, failing, wopen>>

\* the transport will fail within the coming writes: the call that hits the failure must report an
\* error (C14), and the message is not judged any further
T_WriteFail == /\ IsEvent("WriteFail") /\ phase = "idle" /\ judged' = FALSE /\ failing' = TRUE
               /\ UNCHANGED <<ps, chan, nr, queued, wired, closed, phase, typ, cancelled, wopen>>
T_Queue == /\ IsEvent("Queue") /\ phase = "idle"
           /\ phase' = "queue" /\ queued' = queued + E.n /\ typ' = E.typ
           /\ cancelled' = (E.ctx = "cancelled")
           /\ UNCHANGED <<ps, chan, nr, wired, closed, judged, failing, wopen>>
T_Flush == /\ IsEvent("Flush") /\ phase = "idle"
           /\ phase' = "flush" /\ typ' = E.typ /\ cancelled' = (E.ctx = "cancelled")
           /\ UNCHANGED <<ps, chan, nr, queued, wired, closed, judged, failing, wopen>>
T_Send == /\ IsEvent("Send") /\ phase = "idle"
          /\ phase' = "flush" /\ queued' = queued + E.n /\ typ' = E.typ
          /\ cancelled' = (E.ctx = "cancelled")
          /\ UNCHANGED <<ps, chan, nr, wired, closed, judged, failing, wopen>>

\* one packet observed on the transport
T_Wire ==
    /\ IsEvent("Wire") /\ phase \in {"queue", "flush"}
    /\ (J13 => ~cancelled)                           \* C13: a send with a cancelled context writes nothing
    /\ E.hlen = 8 + E.n                              \* header length = real size
    /\ (J01 \/ J12 => E.chan = chan)                 \* every packet carries its channel's id (C12: also the terminating one)
    /\ ((J01 \/ J12) /\ chan > 0 => E.nr = nr)       \* consecutive packet numbers on logical channels
    /\ nr' = IF chan > 0 THEN (nr + 1) % 256 ELSE nr
    /\ IF judged /\ J01
       THEN /\ E.hlen <= ps                          \* never exceeds the packet size in force
            /\ E.typ = typ                           \* the channel's current message type
            /\ ~closed                               \* nothing follows the EOM packet
            /\ E.off = wired /\ E.clean              \* bodies concatenate to the encodings, in order
            /\ wired + E.n <= queued
            /\ wired' = wired + E.n
            /\ IF E.eom
               THEN /\ phase = "flush"               \* only a flush ends a message
                    /\ wired' = queued               \* EOM only on the packet that completes the message
                    /\ closed' = TRUE
               ELSE /\ E.hlen = ps                   \* every packet but the last is full
                    /\ closed' = FALSE
       ELSE wired' = wired + E.n /\ closed' = (closed \/ E.eom)
    /\ wopen' = ~E.eom
    /\ UNCHANGED <<ps, chan, queued, phase, typ, judged, cancelled, failing>>

\* a packet cut short by the failing transport
T_WireGarbage == /\ IsEvent("WireGarbage") /\ failing
                 /\ UNCHANGED <<ps, chan, nr, queued, wired, closed, phase, typ, judged, cancelled, failing, wopen>>
T_QueueEnd ==
    /\ IsEvent("QueueEnd") /\ phase = "queue" /\ phase' = "idle"
    /\ (J01 /\ ~cancelled /\ ~failing => E.st = "ok")      \* packages that encode are queued without error
    /\ E.st # "panic"
    /\ judged' = (judged /\ E.st = "ok")
    /\ cancelled' = FALSE
    /\ UNCHANGED <<ps, chan, nr, queued, wired, closed, typ, failing, wopen>>

T_FlushEnd ==
    /\ IsEvent("FlushEnd") /\ phase = "flush" /\ phase' = "idle"
    /\ (J01 /\ judged /\ ~cancelled) => /\ E.st = "ok"
                                 /\ wired = queued              \* nothing lost, nothing left behind
                                 /\ (queued > 0 => closed)      \* the message was terminated by EOM
    \* a flush with a cancelled context writes nothing (T_Wire); it may report success only when
    \* nothing was left to send
    /\ (J13 /\ judged /\ cancelled /\ E.st = "ok") => (wired = queued /\ (queued > 0 => closed))
    \* a flush that reports success leaves no message open on the wire - also not one whose earlier
    \* flush was given up (the retry terminates it)
    /\ (J01 /\ ~cancelled /\ ~failing /\ E.st = "ok") => ~wopen
    /\ (J14 /\ failing => E.st \in {"err", "ok"})      \* never a panic; "ok" only if the failure point was not reached
    /\ (J14 /\ failing /\ "hit" \in DOMAIN E /\ E.hit => E.st # "ok")   \* a write of this call failed: the call says so
    /\ queued' = 0 /\ wired' = 0 /\ closed' = FALSE /\ judged' = TRUE /\ cancelled' = FALSE /\ failing' = FALSE
    /\ UNCHANGED <<ps, chan, nr, typ, wopen>>

Next == T_Reset \/ T_WriteFail \/ T_Chan \/ T_PacketSize \/ T_SetType \/ T_Queue \/ T_Flush \/ T_Send \/ T_Wire \/ T_WireGarbage
        \/ T_QueueEnd \/ T_FlushEnd
Spec == Init /\ [][Next]_vars
HW == HWOf(l)
=============================================================================
