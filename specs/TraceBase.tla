------------------------------ MODULE TraceBase ------------------------------
(* Common part of every trace-validation specification (U3).  The trace is an NDJSON file whose *)
(* path is given in the environment variable TRACE; `l` is the next line to be explained.        *)
(* Acceptance: the high-water mark of `l` (TLC register 1, maintained by the constraint HW,       *)
(* single worker) must reach Len(Trace)+1.                                                         *)
EXTENDS Integers, Sequences, SequencesExt, FiniteSets, TLC, Json, IOUtils

Trace == ndJsonDeserialize(IOEnv.TRACE)

HWInit == TLCSet(1, 0)
HWOf(l) == TLCSet(1, IF TLCGet(1) < l THEN l ELSE TLCGet(1))
Accepted == IF TLCGet(1) = Len(Trace) + 1 THEN TRUE
            ELSE PrintT(<<"REJECTED_AT_LINE", TLCGet(1)>>) /\ FALSE
KFUsed(name, l) == PrintT(<<"KF_USED", name, l>>)
=============================================================================
