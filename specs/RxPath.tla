------------------------------- MODULE RxPath -------------------------------
(* Design model of the receive path of tds.Channel (WritePacket / tryParsePackage /               *)
(* handleSpecialPackage, tds/channel.go) on top of the code-shaped packet queue (PQOps).          *)
(* Serves C02 (fragmentation independence), C03 (one final DONE per response, nothing carried     *)
(* over), C11 (hooks exactly once, special packages never delivered).                             *)
(* A response is a sequence of packages [k |-> kind, n |-> encoded length]; byte o of the         *)
(* response is the integer o, so the package a byte belongs to is known (Where).                  *)
(* kinds: "row" (any ordinary package), "doneF" (DONE, status FINAL), "doneM" (DONE with other    *)
(* bits), "info" (EED with the info bit), "eed" (EED), "env" (ENVCHANGE).                         *)
(* delivered entries: package index; 0 = the synthetic final DONE; -1 = a desynchronised parse.   *)
(* Kind "bad" is a package whose parser fails with an error other than not-enough-bytes (malformed   *)
(* input): tryParsePackage queues the error into the channel's bounded error queue (capacity ErrCap) *)
(* and WritePacket rolls the position back, so the same bytes are parsed again with every later       *)
(* packet; when the error queue is full the reader goroutine blocks ("wedged").  Kept out of the       *)
(* judged shapes; MC_RxPath_Wedge.cfg shows the wedge as a counterexample (spec growth, DESIGN.md).   *)
(* RESETLAST = TRUE is the repaired code, which forgets the last delivered package when a message is  *)
(* complete; FALSE is the pinned code, where a response that delivers nothing (only informational      *)
(* messages / environment changes, or no package at all) after one that ended in a final DONE gets no  *)
(* final DONE.  HDRDATA = TRUE is the repaired code, which treats a header-only packet of a response as *)
(* a data packet without data; FALSE is the pinned code, which hands it to the consumer as a package   *)
(* of its own (-2 in `delivered`) and skips the end-of-message handling.  The peer may send up to      *)
(* MaxEmpty header-only packets per response: anywhere inside it, and as the EOM packet behind a last  *)
(* data packet without EOM (the way the repaired transmit side terminates a message whose packets      *)
(* were all sent full).                                                                                 *)
EXTENDS PQOps, FiniteSets, TLC, SequencesExt, Json

CONSTANTS MaxBody,     \* largest packet body the peer uses
          Shapes,      \* set of responses
          Rounds,      \* number of request/response rounds
          GEN, RESETLAST, HDRDATA, MaxEmpty

VARIABLES resp, round, sent, q, lastRx, delivered, hooks, phase, hist, errs, nempty
vars == <<resp, round, sent, q, lastRx, delivered, hooks, phase, hist, errs, nempty>>
ErrCap == 2

Total(r) == FoldSeq(LAMBDA p, a : a + p.n, 0, r)
RECURSIVE PkgAt(_, _, _)
PkgAt(r, o, i) == IF o <= r[i].n THEN <<i, o>> ELSE PkgAt(r, o - r[i].n, i + 1)
Where(o) == PkgAt(resp, o, 1)

IsFinal(p) == p = "doneF"
AtEOM(l) == IF RESETLAST THEN "none" ELSE l       \* WritePacket: the message is complete
Passed(k) == k \notin {"info", "env"}

\* the parse loop of WritePacket as one recursive evaluation; s = [q, last, del, hk]
RECURSIVE Loop(_)
Loop(s) ==
  LET saved == <<s.q.ip, s.q.id>>
      t == PQ_Bytes(s.q, 1) IN
  IF t.st = "need" THEN
      \* no token byte available: end-of-message handling in tryParsePackage
      IF PQ_IsEOM(t.q) THEN
          [s EXCEPT !.q = PQ_Empty, !.last = AtEOM(s.last),
                    !.del = IF IsFinal(s.last) THEN s.del ELSE Append(s.del, 0)]
      ELSE [s EXCEPT !.q = PQ_SetPos(t.q, saved[1], saved[2])]
  ELSE
      LET w == Where(t.bs[1]) pk == resp[w[1]] IN
      IF w[2] # 1 THEN [s EXCEPT !.del = Append(s.del, (0-1))]        \* token read in mid-package
      ELSE IF pk.k = "bad" THEN                                       \* parse error: queue it, roll back (or reset at EOM)
          LET b0 == PQ_Bytes(t.q, pk.n - 1) IN
          IF PQ_IsEOM(b0.q) THEN [s EXCEPT !.q = PQ_Empty, !.last = AtEOM(s.last), !.er = s.er + 1]
          ELSE [s EXCEPT !.q = PQ_SetPos(t.q, saved[1], saved[2]), !.er = s.er + 1]
      ELSE LET b == PQ_Bytes(t.q, pk.n - 1) IN
        IF b.st = "need" THEN
            IF PQ_IsEOM(b.q) THEN [s EXCEPT !.q = PQ_Empty, !.last = AtEOM(s.last)]
            ELSE [s EXCEPT !.q = PQ_SetPos(b.q, saved[1], saved[2])]
        ELSE
            LET s2 == [s EXCEPT !.q = PQ_Discard(b.q),
                                !.hk = IF pk.k = "eed" THEN Append(s.hk, w[1]) ELSE s.hk,
                                !.del = IF Passed(pk.k) THEN Append(s.del, w[1]) ELSE s.del,
                                !.last = IF Passed(pk.k) THEN pk.k ELSE s.last]
            IN Loop(s2)

H(e) == hist' = IF GEN THEN Append(hist, e) ELSE hist

Init == /\ resp \in Shapes /\ round = 1 /\ sent = 0 /\ q = PQ_Empty /\ lastRx = "none"
        /\ delivered = <<>> /\ hooks = <<>> /\ phase = "recv" /\ hist = <<>> /\ errs = 0 /\ nempty = 0

\* the peer sends the next n bytes of the response as one packet; the packet that completes the
\* response carries EOM (e) or leaves that to a header-only packet behind it
Send(n, e) ==
  /\ phase = "recv" /\ sent < Total(resp) /\ n \in 1..MaxBody /\ sent + n <= Total(resp)
  /\ errs <= ErrCap                                   \* a wedged reader takes no more packets
  /\ e \in BOOLEAN /\ (e => sent + n = Total(resp))
  /\ (sent + n = Total(resp) /\ ~e) => nempty < MaxEmpty
  /\ LET eom == e
         pkt == [i \in 1..n |-> sent + i]
         s0 == [q |-> PQ_Add(q, pkt, eom), last |-> lastRx, del |-> delivered, hk |-> hooks, er |-> errs]
         s1 == Loop(s0)
     IN /\ q' = s1.q /\ lastRx' = s1.last /\ delivered' = s1.del /\ hooks' = s1.hk
        /\ errs' = s1.er
        /\ sent' = sent + n
        /\ phase' = IF eom THEN "eom" ELSE "recv"
        /\ H([op |-> "Send", n |-> n, e |-> e, resp |-> resp, del |-> s1.del])
        /\ UNCHANGED <<resp, round, nempty>>

\* the peer sends a header-only packet: the EOM packet once all bytes of the response are sent,
\* an empty packet in the middle of the response otherwise
SendEmpty ==
  /\ phase = "recv" /\ nempty < MaxEmpty /\ errs <= ErrCap
  /\ LET e == (sent = Total(resp)) IN
     /\ IF HDRDATA
        THEN LET s0 == [q |-> PQ_Add(q, <<>>, e), last |-> lastRx, del |-> delivered, hk |-> hooks, er |-> errs]
                 s1 == Loop(s0)
             IN /\ q' = s1.q /\ lastRx' = s1.last /\ delivered' = s1.del /\ hooks' = s1.hk /\ errs' = s1.er
        ELSE /\ delivered' = Append(delivered, (0-2))           \* handed over as a HeaderOnlyPackage
             /\ UNCHANGED <<q, lastRx, hooks, errs>>
     /\ phase' = IF e THEN "eom" ELSE "recv"
     /\ H([op |-> "Empty", n |-> 0, e |-> e, resp |-> resp, del |-> delivered'])
  /\ nempty' = nempty + 1
  /\ UNCHANGED <<resp, round, sent>>

NextRound ==
  /\ phase = "eom" /\ round < Rounds
  /\ \E r \in Shapes : resp' = r
  /\ round' = round + 1 /\ sent' = 0 /\ delivered' = <<>> /\ hooks' = <<>> /\ phase' = "recv" /\ nempty' = 0
  /\ H([op |-> "Round", n |-> 0, e |-> FALSE, resp |-> resp', del |-> <<>>])
  /\ UNCHANGED <<q, lastRx, errs>>

Next == (\E n \in 1..MaxBody, e \in BOOLEAN : Send(n, e)) \/ SendEmpty \/ NextRound
Spec == Init /\ [][Next]_vars

---------------------------------------------------------------------------
\* what the consumer must see
RECURSIVE EndOff(_, _)
EndOff(r, i) == IF i = 0 THEN 0 ELSE EndOff(r, i - 1) + r[i].n
Complete == { i \in 1..Len(resp) : EndOff(resp, i) <= sent }
ExpectedPassed == SelectSeq([i \in 1..Len(resp) |-> i], LAMBDA i : i \in Complete /\ Passed(resp[i].k))
LastPassedKind == IF ExpectedPassed = <<>> THEN "none" ELSE resp[ExpectedPassed[Len(ExpectedPassed)]].k

C02_DeliveredIsCompletePrefix == phase = "recv" => delivered = ExpectedPassed
C03_AtEOM ==
  phase = "eom" => \/ delivered = ExpectedPassed /\ LastPassedKind = "doneF"
                   \/ delivered = Append(ExpectedPassed, 0) /\ LastPassedKind # "doneF"
C03_NoCarryOver == phase = "eom" => q = PQ_Empty
C11_HooksOnce == hooks = SelectSeq([i \in 1..Len(resp) |-> i], LAMBDA i : i \in Complete /\ resp[i].k = "eed")
C11_NeverDelivered == \A i \in 1..Len(delivered) : delivered[i] > 0 => Passed(resp[delivered[i]].k)
\* the reader never blocks on its own error queue (false for malformed input: see MC_RxPath_Wedge.cfg)
NoWedge == errs <= ErrCap
NoDesync == \A i \in 1..Len(delivered) : delivered[i] # (0-1)
\* C02: nothing is delivered that the server did not send
NoSpurious == \A i \in 1..Len(delivered) : delivered[i] # (0-2)

GenPrint == (GEN /\ phase = "eom" /\ round = Rounds) => PrintT(<<"SCN", ToJson(hist)>>)
View == <<resp, round, sent, q, lastRx, delivered, hooks, phase, errs, nempty>>
=============================================================================
