------------------------------ MODULE LoginSpec ------------------------------
(* The C08 contract as an executable specification.  A server reply script is a sequence of       *)
(* abstract packages [t |-> type, a |-> attribute] with "eom" marking the end of a server message:  *)
(*   ack: succeed / fail / negotiate / succeedx / negotiatex (the status byte of succeed / negotiate *)
(*        with a further bit set: 0x85, 0x87 - not one of the three statuses)                           *)
(*   msg: enc4 / enc3 / other                                                                          *)
(*   fmt: 3ok / 2 / 4 (columns) / badtype (cipher suite not INT4) / vbnonce (nonce VARBINARY)         *)
(*   params: good / notpem / notpkcs1 / trailing / emptykey (key of length 0) / wskey (white space and NUL only) /                       *)
(*           pkixec / pkixed (a PKIX ECDSA / Ed25519 public key) / smallkey (a good key that is too small  *)
(*           for this nonce plus the 32-byte session key) / cipher2 / cipher3 / cipher257 / cipherneg   *)
(*           (cipher suite 2, 3, 257, -1 instead of 1)                      done: final / more         *)
(*   caps: normal / subset (another non-zero answer) / zero (all-zero masks) / emptyres, emptyreq      *)
(*         (the response / request block has a mask of length 0)                                        *)
(*   eed: info / err     env: packsize / db     other: x     eom: x                                     *)
(* Delivered(script) is what reaches the login routine: informational EEDs and environment changes   *)
(* are filtered by the channel (C11), a final DONE is supplied at the end of a message that lacks    *)
(* one (C03), a PARAMS without a preceding format is a channel error after which nothing more is      *)
(* delivered.  Verdict(flow, script) is three-valued: "S" login must succeed, "F" it must fail (at    *)
(* the latest when the context expires), "U" the statement leaves it open.                            *)
EXTENDS Integers, Sequences, SequencesExt, FiniteSets

P(t, a) == [t |-> t, a |-> a]
ValidPlain == <<P("ack", "succeed"), P("done", "final"), P("eom", "x")>>
ValidEnc == <<P("ack", "negotiate"), P("msg", "enc4"), P("fmt", "3ok"), P("params", "good"), P("done", "final"),
              P("eom", "x"), P("ack", "succeed"), P("caps", "normal"), P("done", "final"), P("eom", "x")>>
Attrs(t) == CASE t = "ack" -> {"succeed", "fail", "negotiate", "succeedx", "negotiatex"}
              [] t = "msg" -> {"enc4", "enc3", "other"}
              [] t = "fmt" -> {"3ok", "2", "4", "badtype", "vbnonce"}
              [] t = "params" -> {"good", "notpem", "notpkcs1", "trailing", "emptykey", "wskey", "pkixec", "pkixed", "smallkey", "cipher2", "cipher3", "cipher257", "cipherneg"}
              [] t = "done" -> {"final", "more"}
              [] t = "caps" -> {"normal", "subset", "zero", "emptyres", "emptyreq"}
              [] t = "eed" -> {"info", "err"}
              [] t = "env" -> {"packsize", "db"}
              [] OTHER -> {"x"}
\* (also packages of the other flow / the other phase where they do not belong)
Insertable == {P("eed", "info"), P("eed", "err"), P("env", "packsize"), P("env", "db"), P("other", "x"),
               P("done", "more"), P("ack", "fail"), P("eom", "x"),
               P("caps", "normal"), P("msg", "enc4"), P("ack", "succeed"), P("ack", "negotiate"), P("done", "final")}

\* ---- single edits
Delete(s, i) == SubSeq(s, 1, i - 1) \o SubSeq(s, i + 1, Len(s))
Dup(s, i) == SubSeq(s, 1, i) \o SubSeq(s, i, Len(s))
Swap(s, i) == SubSeq(s, 1, i - 1) \o <<s[i + 1], s[i]>> \o SubSeq(s, i + 2, Len(s))
Alter(s, i, a) == [s EXCEPT ![i] = P(s[i].t, a)]
Insert(s, i, e) == SubSeq(s, 1, i - 1) \o <<e>> \o SubSeq(s, i, Len(s))
Edits(s) == {Delete(s, i) : i \in 1..Len(s)} \cup {Dup(s, i) : i \in 1..Len(s)}
            \cup {Swap(s, i) : i \in 1..(Len(s) - 1)}
            \cup {Alter(s, i, a) : i \in 1..Len(s), a \in UNION {Attrs(s[j].t) : j \in 1..Len(s)}}
            \cup {Insert(s, i, e) : i \in 1..(Len(s) + 1), e \in Insertable}
\* only well-typed alterations
WellTyped(s) == \A i \in 1..Len(s) : s[i].a \in Attrs(s[i].t)
Edits1(s) == {x \in Edits(s) : WellTyped(x)}
Edits2(s) == UNION {Edits1(x) : x \in Edits1(s)}

\* ---- what reaches the login routine
\* s: packages of one server message (no eom inside); st = [last, ref, acc]: last delivered package,
\* last delivered non-EED package, delivered so far.  The message ends with EOM.
RECURSIVE DelivMsg(_, _, _)
DelivMsg(m, i, st) ==
    IF st.stuck THEN st
    ELSE IF i > Len(m)
    THEN IF st.last = P("done", "final") THEN st
         ELSE [st EXCEPT !.last = P("done", "final"), !.ref = P("done", "final"), !.acc = Append(@, P("done", "synth"))]
    ELSE LET e == m[i] IN
      CASE e.t = "env" \/ e = P("eed", "info") -> DelivMsg(m, i + 1, st)
        [] e = P("eed", "err") -> DelivMsg(m, i + 1, [st EXCEPT !.last = e, !.acc = Append(@, e)])
        [] e.t = "params" ->
             IF st.ref.t \in {"fmt", "params"}
             THEN DelivMsg(m, i + 1, [st EXCEPT !.last = e, !.ref = e,
                      !.acc = Append(@, P("params", IF st.ref.a = "3ok" \/ st.ref.t = "params" THEN e.a ELSE "mismatch"))])
             ELSE [st EXCEPT !.stuck = TRUE, !.acc = Append(@, P("err", "x"))]   \* channel error, parsing is stuck
        [] OTHER -> DelivMsg(m, i + 1, [st EXCEPT !.last = IF e.t = "done" /\ e.a = "final" THEN P("done", "final") ELSE e,
                                                !.ref = e, !.acc = Append(@, e)])
\* the non-empty server messages of a script (an "eom" with nothing before it sends nothing)
RECURSIVE Msgs(_, _, _)
Msgs(s, i, cur) == IF i > Len(s) THEN <<>>        \* packages after the last eom are never flushed
                   ELSE IF s[i].t = "eom" THEN (IF cur = <<>> THEN Msgs(s, i + 1, <<>>) ELSE <<cur>> \o Msgs(s, i + 1, <<>>))
                   ELSE Msgs(s, i + 1, Append(cur, s[i]))
St0 == [last |-> P("none", "x"), ref |-> P("none", "x"), acc |-> <<>>, stuck |-> FALSE]
IsDone(e) == e.t = "done"
Phase1OK(D) == Len(D) >= 5 /\ D[1] = P("ack", "negotiate") /\ D[2] = P("msg", "enc4") /\ D[3] = P("fmt", "3ok")
               /\ D[4] = P("params", "good") /\ IsDone(D[5])
\* The peer sends its first message when the client's login message has arrived and its second one
\* when the client's encrypted reply has arrived; a client that never replies sees nothing more.
Delivered(flow, s) ==
    LET ms == Msgs(s, 1, <<>>) IN
    IF ms = <<>> THEN <<>>
    ELSE LET st1 == DelivMsg(ms[1], 1, St0) IN
         IF flow = "enc" /\ Phase1OK(st1.acc) /\ Len(ms) >= 2 THEN DelivMsg(ms[2], 1, st1).acc ELSE st1.acc

Has(D, i) == i <= Len(D)
VerdictPlain(D) ==
    IF ~Has(D, 1) \/ D[1] # P("ack", "succeed") THEN "F"
    ELSE IF ~Has(D, 2) \/ ~IsDone(D[2]) THEN "F"
    ELSE IF Len(D) = 2 /\ D[2].a = "final" THEN "S" ELSE "U"

\* index of the first ack at or after i, 0 if an error marker or the end comes first
RECURSIVE NextAck(_, _)
NextAck(D, i) == IF i > Len(D) \/ D[i].t = "err" THEN 0 ELSE IF D[i].t = "ack" THEN i ELSE NextAck(D, i + 1)
VerdictEnc(D) ==
    IF ~Phase1OK(D) THEN "F"
    ELSE LET k == NextAck(D, 6) IN
         IF k = 0 \/ D[k].a # "succeed" THEN "F"
         ELSE IF ~Has(D, k + 2) \/ D[k + 1].t # "caps" \/ D[k + 1].a = "zero" \/ ~IsDone(D[k + 2]) THEN "F"
         \* a block without any mask byte is neither a usable answer nor "all-zero capabilities": left open
         ELSE IF k = 6 /\ Len(D) = 8 /\ D[5].a = "final" /\ D[8].a = "final" /\ D[7].a \in {"normal", "subset"} THEN "S" ELSE "U"
Verdict(flow, s) == IF flow = "plain" THEN VerdictPlain(Delivered(flow, s)) ELSE VerdictEnc(Delivered(flow, s))
\* the announced packet size, if the script announces one before the login completes
\* an announced packet size that the login routine must have seen: announced in a message the peer
\* really sends (packages behind the last end-of-message are never sent) and before a DONE of it
RECURSIVE FlatMsgs(_)
FlatMsgs(ms) == IF ms = <<>> THEN <<>> ELSE Head(ms) \o FlatMsgs(Tail(ms))
SentSeq(flow, s) == LET ms == Msgs(s, 1, <<>>)
                        n == IF flow = "plain" THEN 1 ELSE 2
                    IN FlatMsgs(SubSeq(ms, 1, IF Len(ms) < n THEN Len(ms) ELSE n))
HasPacksize(flow, s) == LET x == SentSeq(flow, s) IN
                        \E i \in 1..Len(x) : \E j \in (i + 1)..Len(x) : x[i] = P("env", "packsize") /\ x[j].t = "done"
=============================================================================
