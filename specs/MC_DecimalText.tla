---------------------------- MODULE MC_DecimalText ----------------------------
(* Self-check of DecimalText (U1): for every (p, s) with s <= p <= MaxP and every digit string over  *)
(* Digs of length <= p, both signs: Parse(Fmt(x)) = x, and the text has the documented shape.        *)
EXTENDS DecimalText, TLC
CONSTANTS MaxP, Digs
VARIABLES p, s, neg, ds
vars == <<p, s, neg, ds>>
DigitStrings(n) == UNION { [1..k -> Digs] : k \in 0..n }
Init == /\ p \in 1..MaxP /\ s \in 0..p /\ neg \in BOOLEAN
        /\ ds \in { x \in DigitStrings(p) : x = <<>> \/ x[1] # 0 }
Next == UNCHANGED vars
Spec == Init /\ [][Next]_vars
T == Fmt(p, s, neg, ds)
C16_RoundTrip == ParseOK(T, p, s, TRUE, neg /\ ds # <<>>, ds) /\ Proper(T)
C16_Shape == LET d == Decomp(T) IN
             /\ d.ok /\ d.point /\ Len(d.ip) >= 1 /\ Len(d.fp) >= 1
             /\ (Len(d.ip) > 1 => d.ip[1] # 0)                         \* no leading zeros
             /\ (Len(d.fp) > 1 => d.fp[Len(d.fp)] # 0)                 \* no trailing zeros
             /\ Len(d.fp) <= s \/ (s = 0 /\ d.fp = <<0>>)
=============================================================================
