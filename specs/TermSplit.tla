------------------------------- MODULE TermSplit -------------------------------
(* Spec growth beyond the listed properties: term.ParseAndExecQueries (term/parse.go), the statement     *)
(* splitter of the interactive terminal.  Code-shaped model: one step per character of the line, with    *)
(* the state the routine keeps (the text collected so far, whether a quote is open); a query is handed   *)
(* to the executor at every semicolon outside quotes and, if anything is left, at the end of the line;    *)
(* the first failing query ends the routine.  The contract it is checked against is written               *)
(* independently as a recursive function over the line (Split).                                           *)
(* Characters are abstracted to the classes the routine distinguishes: "a" (anything else), ";", and the  *)
(* two quote characters "s" (single) and "d" (double) - which it does NOT distinguish from each other:    *)
(* a quote opened by one is closed by the other (modelled as it is; a line like  select "it's"; x  is one *)
(* query).                                                                                                 *)
EXTENDS Integers, Sequences, TLC
CONSTANTS MaxLen, Chars, FailAt,       \* FailAt: 0 = no query fails, k = the k-th executed query fails
          Quotes, Semi,                 \* the quote characters and the semicolon (strings in the design model, code points in traces)
          TAILALWAYS                    \* variant refuted by TLC: the rest of the line is executed even when it is empty
VARIABLES line, i, cur, quoted, done, failed
vars == <<line, i, cur, quoted, done, failed>>

RECURSIVE Lines(_)
Lines(n) == IF n = 0 THEN {<<>>} ELSE LET s == Lines(n - 1) IN s \cup {Append(x, c) : x \in s, c \in Chars}
Init == /\ line \in Lines(MaxLen) /\ i = 1 /\ cur = <<>> /\ quoted = FALSE /\ done = <<>> /\ failed = FALSE

Exec(q) == IF FailAt # 0 /\ Len(done) + 1 = FailAt
           THEN done' = Append(done, q) /\ failed' = TRUE
           ELSE done' = Append(done, q) /\ failed' = FALSE
Step == /\ ~failed /\ i <= Len(line)
        /\ LET c == line[i] IN
           IF c \in Quotes THEN /\ quoted' = ~quoted /\ cur' = Append(cur, c) /\ UNCHANGED <<done, failed>>
           ELSE IF c = Semi /\ ~quoted THEN /\ Exec(cur) /\ cur' = <<>> /\ UNCHANGED quoted
           ELSE /\ cur' = Append(cur, c) /\ UNCHANGED <<quoted, done, failed>>
        /\ i' = i + 1 /\ UNCHANGED line
\* the end of the line: what is left is executed unless it is empty
Finish == /\ ~failed /\ i = Len(line) + 1
          /\ IF cur # <<>> \/ TAILALWAYS THEN Exec(cur) ELSE UNCHANGED <<done, failed>>
          /\ i' = i + 1 /\ cur' = <<>> /\ UNCHANGED <<line, quoted>>
Next == Step \/ Finish
Spec == Init /\ [][Next]_vars

\* ---- the contract, written over the whole line
\* positions of the semicolons that lie outside quotes (a quote character toggles)
RECURSIVE Cuts(_, _, _)
Cuts(s, k, q) == IF k > Len(s) THEN <<>>
                 ELSE IF s[k] \in Quotes THEN Cuts(s, k + 1, ~q)
                 ELSE IF s[k] = Semi /\ ~q THEN <<k>> \o Cuts(s, k + 1, q)
                 ELSE Cuts(s, k + 1, q)
Split(s) == LET cs == Cuts(s, 1, FALSE)
                n == Len(cs)
                seg(j) == SubSeq(s, (IF j = 1 THEN 1 ELSE cs[j - 1] + 1), cs[j] - 1)
                tail == SubSeq(s, (IF n = 0 THEN 1 ELSE cs[n] + 1), Len(s))
            IN [j \in 1..n |-> seg(j)] \o (IF tail = <<>> THEN <<>> ELSE <<tail>>)
\* with a failing executor: the queries up to and including the failing one
Executed(s, f) == LET all == Split(s) IN IF f # 0 /\ f <= Len(all) THEN SubSeq(all, 1, f) ELSE all
Finished == failed \/ i = Len(line) + 2
ModelMeetsContract == Finished => /\ done = Executed(line, FailAt)
                                  /\ failed = (FailAt # 0 /\ FailAt <= Len(Split(line)))
\* nothing of the line is lost or invented outside quotes: gluing the queries with ";" gives the line back
\* (up to one trailing semicolon)
RECURSIVE Glue(_)
Glue(qs) == IF qs = <<>> THEN <<>> ELSE IF Len(qs) = 1 THEN qs[1] ELSE qs[1] \o <<Semi>> \o Glue(Tail(qs))
Lossless == (Finished /\ FailAt = 0) => (Glue(done) = line \/ Glue(done) \o <<Semi>> = line)
=============================================================================
