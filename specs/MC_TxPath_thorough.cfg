SPECIFICATION Spec
CONSTANTS
  Bodies = {2, 3, 4}
  MaxLen = 10
  MaxMsgs = 3
  MaxSteps = 9
  FIXED = TRUE
  ABORTS = FALSE
  RESETONERR = TRUE
  EOMCTX = TRUE
  KEEPOPEN = TRUE
  GEN = FALSE
INVARIANTS C01_Messages C01_AllButLastFull C01_NothingLeftBehind C01_SizeBound C01_FlushTerminates
VIEW View
CHECK_DEADLOCK FALSE
