SPECIFICATION Spec
CONSTANTS
  MaxLen = 6
  Chars = {"a", ";", "s", "d"}
  Quotes = {"s", "d"}
  Semi = ";"
  FailAt = 2
  TAILALWAYS = FALSE
INVARIANTS ModelMeetsContract Lossless
CHECK_DEADLOCK FALSE
