SPECIFICATION Spec
CONSTANTS
  MaxBody = 1
  Shapes <- ShapesBad
  Rounds = 1
  RESETLAST = TRUE
  HDRDATA = TRUE
  MaxEmpty = 1
  GEN = FALSE
INVARIANTS NoWedge
VIEW View
CHECK_DEADLOCK FALSE
