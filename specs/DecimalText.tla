----------------------------- MODULE DecimalText -----------------------------
(* Specification of decimal <-> text for C16 on digit sequences (38 digits do not fit TLC's       *)
(* integers; sequences do, and scaling by 10^k is appending zeros).  Characters are ASCII codes.   *)
(* A decimal value is [neg : BOOLEAN, ds : Seq(0..9)]: the unscaled integer without leading zeros   *)
(* (<<>> = 0); its numeric value is ds / 10^scale.                                                  *)
EXTENDS Integers, Sequences, SequencesExt

Zeros(n) == [i \in 1..n |-> 0]
RECURSIVE StripLead(_)
StripLead(ds) == IF ds # <<>> /\ Head(ds) = 0 THEN StripLead(Tail(ds)) ELSE ds
RECURSIVE StripTrail(_)
StripTrail(ds) == IF ds # <<>> /\ ds[Len(ds)] = 0 THEN StripTrail(SubSeq(ds, 1, Len(ds) - 1)) ELSE ds
Chars(ds) == [i \in 1..Len(ds) |-> 48 + ds[i]]
Minus == 45
Plus == 43
Point == 46
Space == 32
IsDigit(c) == c >= 48 /\ c <= 57

\* ---- Fmt: the exact decimal expansion of ds / 10^s with precision p (Len(ds) <= p, s <= p)
Fmt(p, s, neg, ds) ==
    LET full == Zeros(p - Len(ds)) \o ds                        \* p digits
        ip == StripLead(SubSeq(full, 1, p - s))
        fp == StripTrail(SubSeq(full, p - s + 1, p))
    IN (IF neg /\ ds # <<>> THEN <<Minus>> ELSE <<>>)
       \o Chars(IF ip = <<>> THEN <<0>> ELSE ip) \o <<Point>> \o Chars(IF fp = <<>> THEN <<0>> ELSE fp)

\* ---- Parse
RECURSIVE TrimL(_)
TrimL(t) == IF t # <<>> /\ Head(t) = Space THEN TrimL(Tail(t)) ELSE t
RECURSIVE TrimR(_)
TrimR(t) == IF t # <<>> /\ t[Len(t)] = Space THEN TrimR(SubSeq(t, 1, Len(t) - 1)) ELSE t
Trim(t) == TrimR(TrimL(t))
AllDigits(t) == \A i \in 1..Len(t) : IsDigit(t[i])
PointsAt(t) == SelectSeq([i \in 1..Len(t) |-> i], LAMBDA i : t[i] = Point)
\* decomposition of a trimmed text: [sign, int, frac, haspoint] or "bad"
Decomp(t0) ==
    LET t == Trim(t0)
        signed == t # <<>> /\ Head(t) \in {Minus, Plus}
        body == IF signed THEN Tail(t) ELSE t
        pts == PointsAt(body)
    IN IF Len(pts) > 1 THEN [ok |-> FALSE]
       ELSE LET ip == IF pts = <<>> THEN body ELSE SubSeq(body, 1, pts[1] - 1)
                fp == IF pts = <<>> THEN <<>> ELSE SubSeq(body, pts[1] + 1, Len(body))
            IN IF AllDigits(ip) /\ AllDigits(fp) /\ Len(ip) + Len(fp) >= 1
               THEN [ok |-> TRUE, neg |-> signed /\ Head(t) = Minus, plus |-> signed /\ Head(t) = Plus,
                     ip |-> [i \in 1..Len(ip) |-> ip[i] - 48], fp |-> [i \in 1..Len(fp) |-> fp[i] - 48],
                     point |-> pts # <<>>]
               ELSE [ok |-> FALSE]
\* lenient numeral: sign? digit* (. digit*)? with at least one digit; proper: digit+ (. digit+)?, no plus sign
Lenient(t) == Decomp(t).ok
Proper(t) == LET d == Decomp(t) IN d.ok /\ ~d.plus /\ Len(d.ip) >= 1 /\ (d.point => Len(d.fp) >= 1)
\* the unscaled integer the numeral denotes at scale s, if it has one
FracFits(d, s) == Len(StripTrail(d.fp)) <= s                     \* no non-zero digit beyond the scale
Unscaled(d, s) == LET f == IF Len(d.fp) <= s THEN d.fp \o Zeros(s - Len(d.fp)) ELSE SubSeq(d.fp, 1, s)
                  IN StripLead(d.ip \o f)
Representable(t, p, s) == LET d == Decomp(t) IN d.ok /\ FracFits(d, s) /\ Len(Unscaled(d, s)) <= p
\* three-valued verdict on one parse outcome
ParseOK(t, p, s, ok, neg, ds) ==
    IF ok
    THEN \* accepted: only a numeral, only if representable, and never a different value
         /\ Representable(t, p, s)
         /\ ds = Unscaled(Decomp(t), s)
         /\ (ds # <<>> => neg = Decomp(t).neg)
    ELSE \* rejected: fine unless it is a proper numeral with no more fraction digits than the scale that fits
         ~(Proper(t) /\ Len(Decomp(t).fp) <= s /\ Len(Unscaled(Decomp(t), s)) <= p)
=============================================================================
