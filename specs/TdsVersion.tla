------------------------------- MODULE TdsVersion -------------------------------
(* Spec growth beyond the listed properties: tds.Version (tds/version.go) - four components of one byte   *)
(* each, compared lexicographically, written as "a.b.c.d".                                                *)
(* Parse(parts): the text is split at the points; a part is [ok |-> it is a decimal integer, val |-> it].  *)
(* Contract: exactly four parts, each an integer in 0..255.  NEGWRAP = TRUE is the code as it is: only the *)
(* upper bound is tested, so a negative component is accepted and wraps modulo 256 ("-1.0.0.0" is version   *)
(* 255.0.0.0) - a named deviation, no listed property speaks about it.                                      *)
EXTENDS Integers, Sequences, FiniteSets, TLC
CONSTANTS NEGWRAP
Versions(D) == {<<a, b, c, d>> : a \in D, b \in D, c \in D, d \in D}
RECURSIVE CmpFrom(_, _, _)
CmpFrom(x, y, k) == IF k > 4 THEN 0 ELSE IF x[k] > y[k] THEN 1 ELSE IF x[k] < y[k] THEN 0 - 1 ELSE CmpFrom(x, y, k + 1)
Cmp(x, y) == CmpFrom(x, y, 1)
PartOK(p) == p.ok /\ p.val <= 255 /\ (NEGWRAP \/ p.val >= 0)
Parse(parts) == IF Len(parts) # 4 \/ \E k \in 1..4 : ~PartOK(parts[k]) THEN <<>>
                ELSE [k \in 1..4 |-> parts[k].val % 256]
\* the order is a total order that agrees with equality
OrderLaws(D) == LET V == Versions(D) IN
                /\ \A x, y \in V : Cmp(x, y) = 0 - Cmp(y, x) /\ (Cmp(x, y) = 0 <=> x = y)
                /\ \A x, y, z \in V : (Cmp(x, y) <= 0 /\ Cmp(y, z) <= 0) => Cmp(x, z) <= 0
=============================================================================
