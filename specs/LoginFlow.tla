------------------------------- MODULE LoginFlow -------------------------------
(* Code-shaped model of Channel.Login (tds/login.go): one action per receive step of the routine,   *)
(* run against every server reply script of the edit neighbourhood of the valid scripts.  The       *)
(* routine consumes Delivered(flow, script) - what the channel hands to NextPackage (LoginSpec) -    *)
(* one package at a time; a receive with nothing left to receive waits until the caller's context    *)
(* expires and fails.  The model is the second, independent characterisation of the login: TLC       *)
(* checks that its outcome agrees with the three-valued contract Verdict(flow, script) wherever the  *)
(* contract decides (S / F), for all single and double edits.  Its outcome on the scripts the        *)
(* contract leaves open (U) documents what the code does there; the login driver compares the real   *)
(* outcome with the model's on every script (reported as model drift, not as a violation).           *)
EXTENDS LoginSpec, TLC, Json
CONSTANTS K, GEN
VARIABLES flow, script, pc, i, params, outcome
vars == <<flow, script, pc, i, params, outcome>>

Valid(f) == IF f = "plain" THEN ValidPlain ELSE ValidEnc
Other(f) == IF f = "plain" THEN "enc" ELSE "plain"
\* the neighbourhood of the flow's own valid script, and the replies of the *other* flow (a server that
\* answers an encrypted login with the plain acceptance, and the other way round) with their single edits
Scripts(f) == IF K = 0 THEN {Valid(f)}
              ELSE (IF K = 1 THEN Edits1(Valid(f)) \cup {Valid(f)} ELSE Edits2(Valid(f)))
                   \cup {Valid(Other(f))} \cup Edits1(Valid(Other(f)))
D == Delivered(flow, script)
None == P("none", "x")
Cur == IF i <= Len(D) THEN D[i] ELSE None

Init == /\ flow \in {"plain", "enc"} /\ script \in Scripts(flow)
        /\ pc = "ack1" /\ i = 1 /\ params = None /\ outcome = "none"

Fail == pc' = "end" /\ outcome' = "error" /\ UNCHANGED <<flow, script, i, params>>
Succeed == pc' = "end" /\ outcome' = "success" /\ UNCHANGED <<flow, script, i, params>>
Goto(l) == pc' = l /\ i' = i + 1 /\ UNCHANGED <<flow, script, outcome>>

\* NextPackage: nothing more arrives (the context expires) or the channel reports an error
Dead == Cur = None \/ Cur.t = "err"

\* first response: LOGINACK
Ack1 == /\ pc = "ack1"
        /\ IF Dead \/ Cur.t # "ack" THEN Fail
           ELSE IF flow = "plain"
                THEN IF Cur.a # "succeed" THEN Fail ELSE Goto("done1") /\ UNCHANGED params
                ELSE IF Cur.a # "negotiate" THEN Fail ELSE Goto("msg") /\ UNCHANGED params
\* plain flow: DONE (the status test `Status & TDS_DONE_FINAL != TDS_DONE_FINAL` is never true: FINAL = 0)
Done1 == /\ pc = "done1"
         /\ IF Dead \/ Cur.t # "done" THEN Fail ELSE Succeed
\* encrypted flow: MSG(encrypt4), PARAMFMT with 3 columns, PARAMS with 3 fields, DONE
Msg == /\ pc = "msg"
       /\ IF Dead \/ Cur # P("msg", "enc4") THEN Fail ELSE Goto("fmt") /\ UNCHANGED params
Fmt == /\ pc = "fmt"
       /\ IF Dead \/ Cur.t # "fmt" \/ Cur.a \notin {"3ok", "badtype", "vbnonce"} THEN Fail ELSE Goto("params") /\ UNCHANGED params
Params == /\ pc = "params"
          /\ IF Dead \/ Cur.t # "params" THEN Fail
             ELSE pc' = "done5" /\ i' = i + 1 /\ params' = Cur /\ UNCHANGED <<flow, script, outcome>>
\* DONE, then the checks on the parameters (cipher suite, key), then the encrypted reply is sent
Done5 == /\ pc = "done5"
         /\ IF Dead \/ Cur.t # "done" THEN Fail
            ELSE IF params.a # "good" THEN Fail         \* wrong column type, wrong suite, unusable key
            ELSE Goto("until") /\ UNCHANGED params
\* NextPackageUntil: packages up to the next LOGINACK are skipped
Until == /\ pc = "until"
         /\ IF Dead THEN Fail
            ELSE IF Cur.t # "ack" THEN pc' = "until" /\ i' = i + 1 /\ UNCHANGED <<flow, script, params, outcome>>
            ELSE IF Cur.a # "succeed" THEN Fail ELSE Goto("caps") /\ UNCHANGED params
Caps == /\ pc = "caps"
        /\ IF Dead \/ Cur.t # "caps" \/ Cur.a = "zero" THEN Fail ELSE Goto("done8") /\ UNCHANGED params
Done8 == /\ pc = "done8"
         /\ IF Dead \/ Cur.t # "done" THEN Fail ELSE Succeed
Finished == pc = "end" /\ UNCHANGED vars

Next == Ack1 \/ Done1 \/ Msg \/ Fmt \/ Params \/ Done5 \/ Until \/ Caps \/ Done8 \/ Finished
Spec == Init /\ [][Next]_vars /\ WF_vars(Next)

V == Verdict(flow, script)
\* the step model agrees with the contract wherever the contract decides
C08_ModelMeetsContract == pc = "end" => /\ (V = "S" => outcome = "success")
                                        /\ (V = "F" => outcome = "error")
C08_Terminates == <>(pc = "end")
TypeOK == pc \in {"ack1", "done1", "msg", "fmt", "params", "done5", "until", "caps", "done8", "end"}
          /\ outcome \in {"none", "success", "error"}
GenPrint == (GEN /\ pc = "end") => PrintT(<<"SCN", ToJson([flow |-> flow, script |-> script, verdict |-> V, model |-> outcome])>>)
=============================================================================
