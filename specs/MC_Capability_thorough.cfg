SPECIFICATION Spec
CONSTANTS G = 3
 MaxRanges = 2
 NCaps = 2
INVARIANTS C19_InvalidIsError C19_NoSilentError C19_HasIffInSomeRange C19_NoRangeNeverReported
CHECK_DEADLOCK FALSE
