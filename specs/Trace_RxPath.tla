---------------------------- MODULE Trace_RxPath ----------------------------
(* Trace validation for the receive side (contract level): C02, C03, C11, C14.                     *)
(* The harness-owned peer sends responses whose packages it built itself (event Resp: per package   *)
(* its Go type, encoded length, whether it reaches the consumer, whether it is a DONE with status    *)
(* FINAL, whether it is a non-info EED, its ENVCHANGE members) cut into packets (event Packet,       *)
(* stamped before the bytes are handed over).  What the library does is observed at the API:        *)
(* Recv (NextPackage returned a package: type and hash of a complete field dump), Hook / Env         *)
(* (callbacks entered), RecvErr, Cb / UntilEnd (NextPackageUntil), RunEnd (nothing left to read).    *)
(* A run in mode "ref" (one packet, fresh connection) records the reference values; every other     *)
(* run of the same response must deliver exactly the reference sequence.                            *)
EXTENDS TraceBase

VARIABLES l, resps, refs, cur, mode, sentTo, eomSent, idx, nh, ne, hookPos, envPos, ps, active,
          fail, ustart, uidx, ucb
vars == <<l, resps, refs, cur, mode, sentTo, eomSent, idx, nh, ne, hookPos, envPos, ps, active,
          fail, ustart, uidx, ucb>>

\* The property under judgement (environment variable JUDGE).  Constraints that belong to C11 only
\* (hook / environment-change callbacks, applied packet size) are enforced only when C11 is judged,
\* so that a defect there does not raise an alarm on C02, C03 or C14.
Judge == IF "JUDGE" \in DOMAIN IOEnv THEN IOEnv.JUDGE ELSE "ALL"
\* (C07 judges them as well: a truncated parse attempt must leave no trace, also not in the hooks)
J11 == Judge \in {"C11", "C07", "ALL"}

E == Trace[l]
IsEvent(e) == l <= Len(Trace) /\ Trace[l].ev = e /\ l' = l + 1

Init == /\ l = 1 /\ resps = << >> /\ refs = << >> /\ cur = 0 /\ mode = "none" /\ sentTo = 0
        /\ eomSent = FALSE /\ idx = 0 /\ nh = 0 /\ ne = 0 /\ hookPos = << >> /\ envPos = << >>
        /\ ps = 512 /\ active = FALSE /\ fail = "none" /\ ustart = 0 /\ uidx = 0 /\ ucb = "none"
        /\ HWInit

R == resps[cur]
P == R.pkgs
RECURSIVE EndOff(_, _)
EndOff(pk, i) == IF i = 0 THEN 0 ELSE EndOff(pk, i - 1) + pk[i].len
Idx(pk) == [i \in 1..Len(pk) |-> i]
PassedIdx(pk) == SelectSeq(Idx(pk), LAMBDA i : pk[i].pass)
HookIdx(pk) == SelectSeq(Idx(pk), LAMBDA i : pk[i].hook)
\* environment-change members of a response, flattened: [pkg index, type, old, new]
RECURSIVE EnvMembers(_, _)
EnvMembers(pk, i) ==
    IF i > Len(pk) THEN <<>>
    ELSE [k \in 1..Len(pk[i].env) |-> [p |-> i, typ |-> pk[i].env[k][1], old |-> pk[i].env[k][2], new |-> pk[i].env[k][3]]]
         \o EnvMembers(pk, i + 1)
NeedSynth(pk) == LET e == PassedIdx(pk) IN e = <<>> \/ ~pk[e[Len(e)]].final
NExp(pk) == Len(PassedIdx(pk)) + (IF NeedSynth(pk) THEN 1 ELSE 0)
\* everything the consumer is to see of the current response has arrived: with a library-supplied final DONE
\* that is the whole message; otherwise it is the server's own final DONE (packages the consumer never sees
\* and the end-of-message packet may still be on their way)
RespComplete == IF NeedSynth(resps[cur].pkgs) THEN eomSent /\ sentTo = resps[cur].total
                ELSE LET e == PassedIdx(resps[cur].pkgs) IN EndOff(resps[cur].pkgs, e[Len(e)]) <= sentTo
\* number of hook EEDs positioned before package index p
HooksBefore(pk, p) == Cardinality({i \in 1..Len(pk) : pk[i].hook /\ i < p})

T_Reset == /\ IsEvent("Reset")
           /\ resps' = << >> /\ refs' = << >> /\ cur' = 0 /\ mode' = "none" /\ sentTo' = 0 /\ eomSent' = FALSE
           /\ idx' = 0 /\ nh' = 0 /\ ne' = 0 /\ hookPos' = << >> /\ envPos' = << >> /\ ps' = 512
           /\ active' = FALSE /\ fail' = "none" /\ ustart' = 0 /\ uidx' = 0 /\ ucb' = "none"

T_Resp == /\ IsEvent("Resp") /\ ~active
          /\ resps' = [i \in DOMAIN resps \cup {E.id} |-> IF i = E.id THEN [pkgs |-> E.pkgs, total |-> E.total, synth |-> E.synth, packsize |-> E.packsize] ELSE resps[i]]
          /\ UNCHANGED <<refs, cur, mode, sentTo, eomSent, idx, nh, ne, hookPos, envPos, ps, active, fail, ustart, uidx, ucb>>

T_Run == /\ IsEvent("Run") /\ ~active /\ E.resp \in DOMAIN resps
         /\ cur' = E.resp /\ mode' = E.mode /\ sentTo' = 0 /\ eomSent' = FALSE /\ idx' = 0
         /\ active' = TRUE /\ fail' = "none" /\ ustart' = 0 /\ uidx' = 0 /\ ucb' = "none"
         /\ (E.mode = "ref" => refs' = [i \in DOMAIN refs \cup {E.resp} |-> IF i = E.resp THEN <<>> ELSE refs[i]])
         /\ (E.mode # "ref" => /\ E.resp \in DOMAIN refs /\ UNCHANGED refs)
         /\ IF E.fresh THEN nh' = 0 /\ ne' = 0 /\ ps' = 512 ELSE UNCHANGED <<nh, ne, ps>>
         /\ hookPos' = [h \in 0..(nh' - 1) |-> 0] /\ envPos' = [h \in 0..(ne' - 1) |-> 0]
         /\ UNCHANGED resps

\* hooks registered so far on this connection; hooks registered before the run see all of it
T_Hooks == /\ IsEvent("Hooks") /\ active /\ sentTo = 0
           /\ nh' = E.eed /\ ne' = E.env
           /\ hookPos' = [h \in 0..(E.eed - 1) |-> 0] /\ envPos' = [h \in 0..(E.env - 1) |-> 0]
           /\ UNCHANGED <<resps, refs, cur, mode, sentTo, eomSent, idx, ps, active, fail, ustart, uidx, ucb>>

T_Packet == /\ IsEvent("Packet") /\ active /\ E.from = sentTo /\ E.to <= R.total /\ ~eomSent
            /\ sentTo' = E.to /\ eomSent' = E.eom
            /\ UNCHANGED <<resps, refs, cur, mode, idx, nh, ne, hookPos, envPos, ps, active, fail, ustart, uidx, ucb>>

\* the transport fails after delivering `off` bytes of the byte stream (C14)
T_Fail == /\ IsEvent("Fail") /\ active /\ fail' = E.kind
          /\ UNCHANGED <<resps, refs, cur, mode, sentTo, eomSent, idx, nh, ne, hookPos, envPos, ps, active, ustart, uidx, ucb>>

\* ---- a package reaches the consumer (through NextPackage or the NextPackageUntil callback)
Deliver(kind, val, final) ==
    LET exp == PassedIdx(P)
        i == idx + 1 IN
    /\ i <= NExp(P)
    /\ IF i <= Len(exp)
       THEN LET p == exp[i] IN
            /\ kind = P[p].gt                           \* the package the server sent at that place
            /\ EndOff(P, p) <= sentTo                   \* only from completely received data
            /\ final = P[p].final
            /\ (J11 => \A h \in 0..(nh - 1) : hookPos[h] >= HooksBefore(P, p))     \* C11: hooks before later packages
       ELSE \* the one synthetic final DONE that marks the end of the response
            /\ kind = "*tds.DonePackage" /\ val = R.synth /\ final
            /\ eomSent /\ sentTo = R.total             \* never a spurious final DONE (C14)
            /\ (J11 => \A h \in 0..(nh - 1) : hookPos[h] = Len(HookIdx(P)))
    /\ IF mode = "ref"
       THEN refs' = [refs EXCEPT ![cur] = Append(@, [kind |-> kind, val |-> val])]
       ELSE /\ refs[cur][i] = [kind |-> kind, val |-> val]                 \* C02: same package, same values
            /\ UNCHANGED refs
    /\ idx' = i

T_Recv == /\ IsEvent("Recv") /\ active
          /\ Deliver(E.kind, E.val, E.final)
          /\ UNCHANGED <<resps, cur, mode, sentTo, eomSent, nh, ne, hookPos, envPos, ps, active, fail, ustart, uidx, ucb>>

T_Hook == /\ IsEvent("Hook") /\ active /\ E.h \in 0..(nh - 1)
          /\ J11 => LET hs == HookIdx(P) k == hookPos[E.h] + 1 IN
                    /\ k <= Len(hs)                                   \* exactly once per message: never more
                    /\ P[hs[k]].msgno = E.msgno                       \* in arrival order
                    /\ EndOff(P, hs[k]) <= sentTo
          /\ hookPos' = [hookPos EXCEPT ![E.h] = @ + 1]
          /\ UNCHANGED <<resps, refs, cur, mode, sentTo, eomSent, idx, nh, ne, envPos, ps, active, fail, ustart, uidx, ucb>>

T_Env == /\ IsEvent("Env") /\ active /\ E.h \in 0..(ne - 1)
         /\ J11 => LET ms == EnvMembers(P, 1) k == envPos[E.h] + 1 IN
                   /\ k <= Len(ms)
                   /\ ms[k].typ = E.typ /\ ms[k].old = E.old /\ ms[k].new = E.new
                   /\ EndOff(P, ms[k].p) <= sentTo
         /\ envPos' = [envPos EXCEPT ![E.h] = @ + 1]
         /\ UNCHANGED <<resps, refs, cur, mode, sentTo, eomSent, idx, nh, ne, hookPos, ps, active, fail, ustart, uidx, ucb>>

\* ---- NextPackageUntil (C03 / C11)
\* UntilStart: the consumer calls NextPackageUntil; Cb: its callback is entered with a package;
\* UntilEnd: the call returned.
T_UntilStart == /\ IsEvent("UntilStart") /\ active /\ ucb = "none"
                /\ ustart' = idx /\ uidx' = idx /\ ucb' = "run"
                /\ UNCHANGED <<resps, refs, cur, mode, sentTo, eomSent, idx, nh, ne, hookPos, envPos, ps, active, fail>>
\* the callback sees the next package that is not an EED (those are collected, not handed over)
RECURSIVE SkipEED(_)
SkipEED(i) == IF i < Len(PassedIdx(P)) /\ P[PassedIdx(P)[i + 1]].kind = "EED" THEN SkipEED(i + 1) ELSE i
T_Cb == /\ IsEvent("Cb") /\ active /\ ucb = "run"
        /\ LET j == SkipEED(idx) IN
           \* the skipped EEDs count as delivered (each was received from the package queue)
           /\ j + 1 <= NExp(P)
           /\ \A k \in (idx + 1)..j : EndOff(P, PassedIdx(P)[k]) <= sentTo
           /\ LET exp == PassedIdx(P) i == j + 1 IN
              /\ IF i <= Len(exp)
                 THEN /\ E.kind = P[exp[i]].gt /\ EndOff(P, exp[i]) <= sentTo /\ E.final = P[exp[i]].final
                 ELSE /\ E.kind = "*tds.DonePackage" /\ E.val = R.synth /\ E.final /\ eomSent /\ sentTo = R.total
              /\ (mode # "ref" => refs[cur][i] = [kind |-> E.kind, val |-> E.val])
              /\ idx' = i
        /\ ucb' = IF E.out = "cont" THEN "run" ELSE E.out      \* what the scripted callback answers
        /\ UNCHANGED <<resps, refs, cur, mode, sentTo, eomSent, nh, ne, hookPos, envPos, ps, active, fail, ustart, uidx>>
\* EED message numbers among the deliveries a+1..b
EEDs(a, b) == LET exp == PassedIdx(P) IN
              [k \in 1..Len(SelectSeq([i \in 1..(b - a) |-> a + i], LAMBDA i : i <= Len(exp) /\ P[exp[i]].kind = "EED")) |->
                 P[exp[SelectSeq([i \in 1..(b - a) |-> a + i], LAMBDA i : i <= Len(exp) /\ P[exp[i]].kind = "EED")[k]]].msgno]
T_UntilEnd ==
    /\ IsEvent("UntilEnd") /\ active /\ ucb \in {"stop", "eof", "err", "run"}
    /\ CASE ucb = "stop" -> /\ E.err = "nil" /\ E.ret = "pkg" /\ idx' = idx
         [] ucb = "eof"  -> /\ E.err = "eof" /\ E.ret = "pkg" /\ idx' = idx
         [] ucb = "err"  -> \* C03: the rest of the response is consumed; C11: the error carries the
                            \* messages received so far, in order, and still matches the callback's error
                            /\ E.iscb /\ E.ret = "nil"
                            /\ idx' = NExp(P)
                            /\ J11 => \/ E.eeds = EEDs(ustart, idx)
                                      \/ E.eeds = EEDs(ustart, NExp(P))
                            \* (a response that ends in the server's own final DONE is complete with that
                            \* package; its end-of-message packet may still be on its way)
                            /\ RespComplete
         [] ucb = "run" /\ E.err = "noready" ->
                            \* a call with wait = false that found nothing queued: nothing was consumed
                            /\ E.ret = "nil" /\ idx' = idx /\ idx = ustart
         [] ucb = "run" /\ E.err # "noready" ->
                            \* nil callback: consume everything up to and including the final DONE
                            /\ E.ret = "nil" /\ E.err \in {"nil", "eof"} /\ idx' = NExp(P)
                            \* (a response that ends in the server's own final DONE is complete with that
                            \* package; its end-of-message packet may still be on its way)
                            /\ RespComplete
    /\ ucb' = "none"
    /\ UNCHANGED <<resps, refs, cur, mode, sentTo, eomSent, nh, ne, hookPos, envPos, ps, active, fail, ustart, uidx>>

\* ---- errors
\* A merely fragmented well-formed response never yields an error.  After a transport failure
\* (C14) an error is what the consumer must get once the deliverable prefix is exhausted.
T_RecvErr == /\ IsEvent("RecvErr") /\ active /\ fail # "none"
             /\ E.class = "err"
             /\ UNCHANGED <<resps, refs, cur, mode, sentTo, eomSent, idx, nh, ne, hookPos, envPos, ps, active, fail, ustart, uidx, ucb>>

T_RunEnd ==
    /\ IsEvent("RunEnd") /\ active /\ ucb = "none"
    /\ IF fail = "none"
       THEN /\ eomSent => /\ idx = NExp(P)                                           \* everything delivered, once
                          /\ (J11 => \A h \in 0..(nh - 1) : hookPos[h] = Len(HookIdx(P)))      \* every hook, every message
                          /\ (J11 => \A h \in 0..(ne - 1) : envPos[h] = Len(EnvMembers(P, 1)))
                          /\ ps' = IF R.packsize > 0 THEN R.packsize ELSE ps
                          /\ (J11 => E.ps = ps')
            /\ ~eomSent => UNCHANGED ps
       ELSE /\ E.gotErr                                                              \* C14: then an error
            /\ E.complete <= idx                    \* at least every package lying in completely received packets
            /\ UNCHANGED ps
    /\ active' = FALSE
    /\ UNCHANGED <<resps, refs, cur, mode, sentTo, eomSent, idx, nh, ne, hookPos, envPos, fail, ustart, uidx, ucb>>

\* stress summary (C14): in no trial did the error overtake the packages of the completely received
\* packet, and in none were they missing
T_ErrOrder == /\ IsEvent("ErrOrder") /\ (Judge \in {"C14", "ALL"} => E.overtaken = 0 /\ E.lost = 0)
              /\ UNCHANGED <<resps, refs, cur, mode, sentTo, eomSent, idx, nh, ne, hookPos, envPos, ps, active, fail, ustart, uidx, ucb>>
Next == T_ErrOrder \/ T_Reset \/ T_Resp \/ T_Run \/ T_Hooks \/ T_Packet \/ T_Fail \/ T_Recv \/ T_Hook \/ T_Env
        \/ T_UntilStart \/ T_Cb \/ T_UntilEnd \/ T_RecvErr \/ T_RunEnd
Spec == Init /\ [][Next]_vars
HW == HWOf(l)
=============================================================================
