---------------------------- MODULE PacketQueue ----------------------------
(* Design model for property C15: tds.PacketQueue used as a byte FIFO.                          *)
(* The code-shaped state `q` (packets, indexPacket, indexData, recvEOM; operators in PQOps) is    *)
(* run in lock step with a ghost flat byte sequence `flat` and cursor `cur`.  The C15_*           *)
(* invariants state that the code-shaped queue refines the flat FIFO.                             *)
(* Domain (DESIGN.md, C15 "unspecified"): writes happen only at the end position; AddPacket only  *)
(* when the tail packet has no padding; reads beyond the end are judged only when no padded       *)
(* packet is queued.                                                                              *)
EXTENDS PQOps, TLC, Json

CONSTANTS Bodies,      \* set of packet body sizes (packetSize - 8) that may be in force
          MaxBytes,    \* bound on bytes ever written/enqueued
          MaxSteps,    \* bound on operations
          MaxRead,     \* largest read size
          GEN          \* TRUE: record the behaviour in `hist` (behaviour generation, U2)

VARIABLES q, flat, cur, caps, saved, last, nb, steps, hist
vars == <<q, flat, cur, caps, saved, last, nb, steps, hist>>

NoSaved == [ok |-> FALSE, ip |-> 0, id |-> 0, cur |-> 0]
NoLast  == [op |-> "none", st |-> "ok", bs |-> <<>>, est |-> "ok", ebs |-> <<>>]

Init == /\ q = PQ_Empty /\ flat = <<>> /\ cur = 0 /\ caps = <<>> /\ saved = NoSaved
        /\ last = NoLast /\ nb = 0 /\ steps = 0 /\ hist = <<>>

Padding == Len(Flatten(q.pk)) - Len(flat)          \* zero bytes make() left in the tail packet
H(e) == hist' = IF GEN THEN Append(hist, e) ELSE hist
Step == steps < MaxSteps /\ steps' = steps + 1

\* expected layout after writing n more bytes with body size b: fill the tail, then open new ones
RECURSIVE GrowCaps(_, _, _, _)
GrowCaps(cs, used, n, b) ==   \* used = bytes in the tail packet
    IF n = 0 THEN cs
    ELSE IF cs = <<>> \/ used = cs[Len(cs)] THEN GrowCaps(Append(cs, b), 0, n, b)
    ELSE LET k == IF cs[Len(cs)] - used < n THEN cs[Len(cs)] - used ELSE n
         IN GrowCaps(cs, used + k, n - k, b)
TailUsed == IF caps = <<>> THEN 0 ELSE caps[Len(caps)] - Padding

Write(n, b) ==
    /\ Step /\ cur = Len(flat) /\ nb + n <= MaxBytes
    /\ q.ip >= Len(q.pk) - 1          \* position is in (or behind) the last packet: a write at the end
    /\ LET bs == [i \in 1..n |-> nb + i] IN
       /\ q' = PQ_Write(q, bs, b)
       /\ flat' = flat \o bs /\ cur' = Len(flat) + n
       /\ caps' = GrowCaps(caps, TailUsed, n, b)
       /\ nb' = nb + n
       /\ last' = [NoLast EXCEPT !.op = "write"]
       /\ H([op |-> "Write", n |-> n, body |-> b, first |-> nb + 1])
    /\ UNCHANGED saved

AddPacket(n, eom) ==
    /\ Step /\ Padding = 0 /\ nb + n <= MaxBytes
    /\ LET bs == [i \in 1..n |-> nb + i] IN
       /\ q' = PQ_Add(q, bs, eom)
       /\ flat' = flat \o bs
       /\ caps' = Append(caps, n)
       /\ nb' = nb + n
       /\ last' = [NoLast EXCEPT !.op = "add"]
       /\ H([op |-> "Add", n |-> n, eom |-> eom, first |-> nb + 1])
    /\ UNCHANGED <<cur, saved>>

\* Bytes(n) / typed reads / io.Reader.Read: all go through PQ_Bytes
Read(n, kind) ==
    /\ Step
    /\ (cur + n > Len(flat) => Padding = 0)          \* judged domain
    /\ LET r == PQ_Bytes(q, n)
           inside == cur + n <= Len(flat)
           ebs == IF inside THEN SubSeq(flat, cur + 1, cur + n) ELSE SubSeq(flat, cur + 1, Len(flat))
       IN /\ q' = r.q
          /\ cur' = IF inside THEN cur + n ELSE Len(flat)
          /\ last' = [op |-> "read", st |-> r.st, bs |-> r.bs,
                      est |-> IF inside THEN "ok" ELSE "need", ebs |-> ebs]
          /\ H([op |-> kind, n |-> n, st |-> IF inside THEN "ok" ELSE "need", bs |-> ebs])
    /\ UNCHANGED <<flat, caps, saved, nb>>

SavePos ==
    /\ Step /\ saved' = [ok |-> TRUE, ip |-> q.ip, id |-> q.id, cur |-> cur]
    /\ last' = [NoLast EXCEPT !.op = "save"] /\ H([op |-> "Save"])
    /\ UNCHANGED <<q, flat, cur, caps, nb>>

RestorePos ==
    /\ Step /\ saved.ok
    /\ q' = PQ_SetPos(q, saved.ip, saved.id) /\ cur' = saved.cur
    /\ last' = [NoLast EXCEPT !.op = "restore"] /\ H([op |-> "Restore"])
    /\ UNCHANGED <<flat, caps, saved, nb>>

Discard ==
    /\ Step
    /\ LET q2 == PQ_Discard(q)
           d  == PQ_Offset(q) - PQ_Offset(q2)          \* bytes in front of the retained packets
           ndrop == Len(q.pk) - Len(q2.pk)
       IN /\ q' = q2
          /\ flat' = SubSeq(flat, d + 1, Len(flat)) /\ cur' = cur - d
          /\ caps' = SubSeq(caps, ndrop + 1, Len(caps))
          /\ last' = [op |-> "discard", st |-> "ok", est |-> "ok",
                      bs  |-> SubSeq(flat, cur + 1, Len(flat)),                       \* unread before
                      ebs |-> SubSeq(SubSeq(flat, d + 1, Len(flat)), cur - d + 1, Len(flat) - d)]
    /\ saved' = NoSaved /\ H([op |-> "Discard"])
    /\ UNCHANGED nb

Reset ==
    /\ Step /\ q' = PQ_Empty /\ flat' = <<>> /\ cur' = 0 /\ caps' = <<>> /\ saved' = NoSaved
    /\ last' = [NoLast EXCEPT !.op = "reset"] /\ H([op |-> "ResetQ"])
    /\ UNCHANGED nb

ReadKinds == {"Bytes", "Read"}
Next == \/ \E n \in 1..MaxRead + 1, b \in Bodies : Write(n, b)
        \/ \E n \in 0..MaxRead, e \in BOOLEAN : AddPacket(n, e)
        \/ \E n \in 0..MaxRead, k \in ReadKinds : Read(n, k)
        \/ SavePos \/ RestorePos \/ Discard \/ Reset
Spec == Init /\ [][Next]_vars

---------------------------------------------------------------------------
\* C15 invariants
RECURSIVE AllZero(_)
AllZero(s) == s = <<>> \/ (Head(s) = 0 /\ AllZero(Tail(s)))
C15_Refines ==
    LET all == Flatten(q.pk) IN
    /\ Len(flat) <= Len(all)
    /\ SubSeq(all, 1, Len(flat)) = flat
    /\ AllZero(SubSeq(all, Len(flat) + 1, Len(all)))
    /\ PQ_Offset(q) = cur
C15_ReadReturnsFlat ==
    last.op = "read" => /\ last.st = last.est
                        /\ last.bs = last.ebs      \* also on "need": the partial bytes are real ones
C15_DiscardKeepsUnread == last.op = "discard" => last.bs = last.ebs
C15_Layout ==
    /\ [i \in 1..Len(q.pk) |-> q.pk[i].cap] = caps
    /\ (q.pk # <<>> /\ Padding > 0 => Padding < q.pk[Len(q.pk)].cap)      \* no packet opened and left empty
    /\ \A i \in 1..Len(q.pk) : Len(q.pk[i].data) = q.pk[i].cap
\* "all consumed" must never be reported while enqueued bytes are unread (the converse fails
\* harmlessly for an un-normalised end position followed by a zero-length packet)
C15_AllConsumedMeansEnd == Padding = 0 => (PQ_AllConsumed(q) => cur = Len(flat))

\* behaviour generation: print each complete behaviour once
GenPrint == (GEN /\ steps = MaxSteps) => PrintT(<<"SCN", ToJson(hist)>>)
View == <<q, flat, cur, caps, saved, last, nb, steps>>
=============================================================================
