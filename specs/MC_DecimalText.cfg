SPECIFICATION Spec
CONSTANTS MaxP = 5
 Digs = {0, 1, 9}
INVARIANTS C16_RoundTrip C16_Shape
CHECK_DEADLOCK FALSE
