SPECIFICATION Spec
CONSTANTS
  K = 1
  NPKG = 2
  PEERANSWERS = TRUE
  CLOSESIGNAL = TRUE
  Closers = {"X"}
  RECHECK = TRUE
  SENDER = TRUE
  RELOCK = TRUE
  GEN = FALSE
INVARIANTS C13_NoDeliveryAfterClose C13_ClosedReported
PROPERTIES C13_SendReturns C13_CloseReturns C13_RecvReturnsAfterCancel
CHECK_DEADLOCK FALSE
