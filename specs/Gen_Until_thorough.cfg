SPECIFICATION Spec
CONSTANTS MaxLen = 3
 GEN = TRUE
CONSTRAINT GenPrint
CHECK_DEADLOCK FALSE
