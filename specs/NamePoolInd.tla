---------------------------- MODULE NamePoolInd ----------------------------
(* The NamePool design model with Apalache type annotations and an inductive invariant:        *)
(* Init => IndInv and IndInv /\ Next => IndInv' (checked with apalache-mc, length 0 / 1) give   *)
(* C18_UniqueAmongHeld for every reachable state of the given constants without enumerating     *)
(* the state space.                                                                              *)
EXTENDS Integers, FiniteSets
CONSTANTS
    \* @type: Set(Int);
    Procs,
    \* @type: Int;
    MaxId
VARIABLES
    \* @type: Int;
    counter,
    \* @type: Int -> Int;
    free,
    \* @type: Int -> Str;
    pc,
    \* @type: Int -> Int;
    nm
vars == <<counter, free, pc, nm>>
CInit == Procs = {1, 2, 3, 4} /\ MaxId = 6
Init == /\ counter = 0 /\ free = [i \in 1..MaxId |-> 0] /\ pc = [p \in Procs |-> "idle"] /\ nm = [p \in Procs |-> 0]
Get(p) == /\ pc[p] = "idle"
          /\ \/ \E i \in 1..MaxId : free[i] > 0 /\ free' = [free EXCEPT ![i] = @ - 1] /\ nm' = [nm EXCEPT ![p] = i] /\ UNCHANGED counter
             \/ /\ counter < MaxId /\ counter' = counter + 1 /\ nm' = [nm EXCEPT ![p] = counter + 1] /\ UNCHANGED free
          /\ pc' = [pc EXCEPT ![p] = "held"]
Put(p) == /\ pc[p] = "held" /\ free' = [free EXCEPT ![nm[p]] = @ + 1] /\ pc' = [pc EXCEPT ![p] = "put"] /\ UNCHANGED <<counter, nm>>
Clear(p) == /\ pc[p] = "put" /\ nm' = [nm EXCEPT ![p] = 0] /\ pc' = [pc EXCEPT ![p] = "released"] /\ UNCHANGED <<counter, free>>
Release2(p) == /\ pc[p] = "released" /\ pc' = [pc EXCEPT ![p] = "idle"] /\ UNCHANGED <<counter, free, nm>>
GC == free' = [i \in 1..MaxId |-> 0] /\ UNCHANGED <<counter, pc, nm>>
Next == (\E p \in Procs : Get(p) \/ Put(p) \/ Clear(p) \/ Release2(p)) \/ GC
TypeOK == /\ counter \in 0..MaxId /\ free \in [1..MaxId -> 0..1]
          /\ pc \in [Procs -> {"idle", "held", "put", "released"}] /\ nm \in [Procs -> 0..MaxId]
Held == {p \in Procs : pc[p] = "held"}
Unique == \A p \in Held : \A r \in Held : p # r => nm[p] # nm[r]
IndInv == /\ TypeOK
          /\ Unique
          /\ \A p \in Held : nm[p] \in 1..counter /\ free[nm[p]] = 0         \* a held id was minted and is not in the pool
          /\ \A i \in 1..MaxId : i > counter => free[i] = 0                  \* nothing beyond the counter is in the pool
          /\ \A p \in Procs : pc[p] = "put" => nm[p] \in 1..counter
=============================================================================
