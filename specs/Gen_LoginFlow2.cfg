SPECIFICATION Spec
CONSTANTS K = 2
 GEN = TRUE
CONSTRAINT GenPrint
CHECK_DEADLOCK FALSE
