--------------------------- MODULE Trace_TdsVersion ---------------------------
(* Trace validation for tds.Version (spec growth, no listed property).                                   *)
(*  Cmp   a, b, out           : a.Compare(b)                                                              *)
(*  Parse parts, st, out      : NewVersionString of the text whose parts are given (ok / val by strconv)   *)
(*  RT    a, st, out, bytes   : NewVersionString(a.String()) and a.Bytes()                                  *)
(*  New   n, st               : NewVersion of a byte slice of length n                                      *)
EXTENDS TraceBase
VARIABLES l
vars == <<l>>
V == INSTANCE TdsVersion WITH NEGWRAP <- TRUE
E == Trace[l]
IsEvent(e) == l <= Len(Trace) /\ Trace[l].ev = e /\ l' = l + 1
Init == l = 1 /\ HWInit
T_Reset == IsEvent("Reset")
T_Cmp == IsEvent("Cmp") /\ E.out = V!Cmp(E.a, E.b)
T_Parse == /\ IsEvent("Parse")
           /\ LET p == V!Parse(E.parts) IN IF p = <<>> THEN E.st = "err" ELSE E.st = "ok" /\ E.out = p
T_RT == IsEvent("RT") /\ E.st = "ok" /\ E.out = E.a /\ E.bytes = E.a
T_New == IsEvent("New") /\ E.st = (IF E.n = 4 THEN "ok" ELSE "err") /\ (E.n = 4 => E.out = E.bs)
Next == T_Reset \/ T_Cmp \/ T_Parse \/ T_RT \/ T_New
Spec == Init /\ [][Next]_vars
HW == HWOf(l)
=============================================================================
