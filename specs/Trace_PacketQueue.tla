------------------------- MODULE Trace_PacketQueue -------------------------
(* Trace validation for C15 (contract level).  The real tds.PacketQueue is driven by the harness;  *)
(* every call is one event carrying its arguments, its result, the position token returned by      *)
(* Position() afterwards and the packet capacities (guarded hook VerifPacketCaps).  The spec keeps  *)
(* only the flat FIFO the property talks about:                                                     *)
(*    flat   bytes enqueued/written and still retained, in order                                    *)
(*    cur    read/write cursor in flat; -2 = "lost": the history left the domain the statement      *)
(*           speaks about (write not at the end, read into make()'s padding) until the next reset   *)
(*    posmap position tokens observed since the last discard  ->  cursor                            *)
(*    caps / tailUsed  layout: capacity of each retained packet, bytes used in the last one         *)
(*    padded the tail packet was opened by a write and is not full (its slice is padded)            *)
EXTENDS TraceBase

VARIABLES l, flat, cur, posmap, caps, tailUsed, eomSeen
vars == <<l, flat, cur, posmap, caps, tailUsed, eomSeen>>

E == Trace[l]
IsEvent(e) == l <= Len(Trace) /\ Trace[l].ev = e /\ l' = l + 1

Blank == /\ flat' = <<>> /\ cur' = 0 /\ posmap' = (<<0, 0>> :> 0) /\ caps' = <<>> /\ tailUsed' = 0
         /\ eomSeen' = FALSE

Init == /\ l = 1 /\ flat = <<>> /\ cur = 0 /\ posmap = (<<0, 0>> :> 0) /\ caps = <<>> /\ tailUsed = 0
        /\ eomSeen = FALSE /\ HWInit

T_Reset == IsEvent("Reset") /\ Blank

Sum(s) == FoldSeq(LAMBDA x, a : x + a, 0, s)
Padded == caps # <<>> /\ tailUsed < caps[Len(caps)]
NoEmptyPacket == \A k \in 1..Len(caps) : caps[k] > 0

\* layout the property prescribes for a write of n bytes with body size b
RECURSIVE Grow(_, _, _, _)
Grow(cs, used, n, b) ==
    IF n = 0 THEN [caps |-> cs, used |-> used]
    ELSE IF cs = <<>> \/ used = cs[Len(cs)] THEN Grow(Append(cs, b), 0, n, b)
    ELSE LET k == IF cs[Len(cs)] - used < n THEN cs[Len(cs)] - used ELSE n
         IN Grow(cs, used + k, n - k, b)

\* every event records the position token observed after the call
Remember(c) == posmap' = IF c < 0 THEN posmap
                         ELSE IF E.pos \in DOMAIN posmap THEN posmap ELSE posmap @@ (E.pos :> c)
Consistent(c) == (c >= 0 /\ E.pos \in DOMAIN posmap) => posmap[E.pos] = c

Lost == cur < 0
GoLost == /\ flat' = <<>> /\ cur' = -2 /\ posmap' = << >> /\ caps' = <<>> /\ tailUsed' = 0

T_Write ==
    /\ IsEvent("Op") /\ E.op = "Write" /\ ~Lost
    /\ E.st = "ok"
    /\ IF cur = Len(flat)
       THEN LET g == Grow(caps, tailUsed, Len(E.data), E.body) IN
            /\ flat' = flat \o E.data /\ cur' = Len(flat) + Len(E.data)
            /\ caps' = g.caps /\ tailUsed' = g.used
            /\ E.lens = g.caps                                   \* C15 layout
            /\ Consistent(cur') /\ Remember(cur')
       ELSE GoLost   \* a write that is not at the end overwrites unread bytes: outside the statement
    /\ UNCHANGED eomSeen

T_Add ==
    /\ IsEvent("Op") /\ E.op = "Add" /\ ~Lost
    /\ flat' = flat \o E.data /\ caps' = Append(caps, Len(E.data)) /\ tailUsed' = Len(E.data)
    /\ E.lens = caps'
    /\ eomSeen' = (eomSeen \/ E.eom)
    /\ Consistent(cur) /\ Remember(cur)
    /\ UNCHANGED cur

IsRead == E.op \in {"Bytes", "Read", "Typed"}
T_ReadInside ==
    /\ IsEvent("Op") /\ IsRead /\ ~Lost /\ cur + E.n <= Len(flat)
    /\ E.st = "ok"
    /\ E.bs = SubSeq(flat, cur + 1, cur + E.n)                      \* exactly the bytes, in order
    /\ (E.op = "Read" => E.cnt = E.n)                               \* io.Reader: buffer filled, count = len(p)
    /\ cur' = cur + E.n
    /\ (E.consumed => cur' = Len(flat))                              \* never "all consumed" before the end
    \* the converse only without zero-length packets in the queue: behind one the position token is
    \* not normalised and the statement says nothing about the queries (DESIGN.md section 16)
    /\ (E.n > 0 /\ cur' = Len(flat) /\ ~Padded /\ NoEmptyPacket => E.consumed)
    /\ (E.iseom => (E.consumed /\ eomSeen))
    /\ (E.n > 0 /\ cur' = Len(flat) /\ ~Padded /\ eomSeen /\ NoEmptyPacket => E.iseom)
    /\ Consistent(cur') /\ Remember(cur')
    /\ UNCHANGED <<flat, caps, tailUsed, eomSeen>>
\* A read beyond the available bytes must report not-enough-bytes.  Where the cursor is
\* afterwards is not part of the statement (the caller restores a saved position): it has
\* either stayed or consumed what was available - both are explored, later position tokens decide.
T_ReadBeyond ==
    /\ IsEvent("Op") /\ IsRead /\ ~Lost /\ cur + E.n > Len(flat) /\ ~Padded
    /\ E.st = "need"
    /\ cur' \in {cur, Len(flat)}
    /\ Consistent(cur') /\ Remember(cur')
    /\ UNCHANGED <<flat, caps, tailUsed, eomSeen>>
\* with a padded (written, not full) tail packet the outcome is outside the statement
T_ReadBeyondPadded ==
    /\ IsEvent("Op") /\ IsRead /\ ~Lost /\ cur + E.n > Len(flat) /\ Padded
    /\ E.st \in {"need", "ok"}
    /\ GoLost /\ UNCHANGED eomSeen

T_Save ==
    /\ IsEvent("Op") /\ E.op = "Save" /\ ~Lost
    /\ Consistent(cur) /\ Remember(cur)
    /\ UNCHANGED <<flat, cur, caps, tailUsed, eomSeen>>

T_Restore ==
    /\ IsEvent("Op") /\ E.op = "Restore" /\ ~Lost
    /\ E.to \in DOMAIN posmap /\ E.pos = E.to
    /\ cur' = posmap[E.to]
    /\ UNCHANGED <<flat, posmap, caps, tailUsed, eomSeen>>

\* written bytes held by the first k packets
WrittenIn(k) == IF k = Len(caps) /\ k > 0 THEN Sum(SubSeq(caps, 1, k - 1)) + tailUsed ELSE Sum(SubSeq(caps, 1, k))
T_Discard ==
    /\ IsEvent("Op") /\ E.op = "Discard" /\ ~Lost
    /\ \E k \in 0..Len(caps) :
         /\ E.lens = SubSeq(caps, k + 1, Len(caps))                  \* packets are dropped from the front only
         /\ WrittenIn(k) <= cur                                       \* and never one holding an unread byte
         /\ flat' = SubSeq(flat, WrittenIn(k) + 1, Len(flat))
         /\ cur' = cur - WrittenIn(k)
         /\ caps' = E.lens
         /\ tailUsed' = IF E.lens = <<>> THEN 0 ELSE tailUsed
    /\ posmap' = (E.pos :> cur')
    /\ UNCHANGED eomSeen

\* outside the statement until the queue is reset
T_LostOp ==
    /\ IsEvent("Op") /\ Lost /\ E.op # "ResetQ" /\ E.st # "panic"
    /\ UNCHANGED <<flat, cur, posmap, caps, tailUsed, eomSeen>>

T_ResetQ == IsEvent("Op") /\ E.op = "ResetQ" /\ E.pos = <<0, 0>> /\ E.lens = <<>> /\ Blank

Next == T_Reset \/ T_Write \/ T_Add \/ T_ReadInside \/ T_ReadBeyond \/ T_ReadBeyondPadded \/ T_Save
        \/ T_Restore \/ T_Discard \/ T_LostOp \/ T_ResetQ
Spec == Init /\ [][Next]_vars
HW == HWOf(l)
=============================================================================
