--------------------------- MODULE Trace_Isolation ---------------------------
(* Trace validation for C20.  Events: {fn, in, out} where out is the set (sorted list) of distinct *)
(* results the real function returned for that argument over many evaluations in one process.      *)
(* `seen` carries results across processes: the same argument must give the same answer always.    *)
EXTENDS TraceBase
VARIABLES l, seen
vars == <<l, seen>>
E == Trace[l]
IsEvent(e) == l <= Len(Trace) /\ Trace[l].ev = e /\ l' = l + 1
Init == l = 1 /\ seen = << >> /\ HWInit
T_Reset == IsEvent("Reset") /\ seen' = << >>

Key == <<E.fn, E.arg>>
Same == /\ Len(E.out) = 1                                           \* one answer within the process
        /\ (Key \in DOMAIN seen => seen[Key] = E.out[1])            \* and across processes
        /\ seen' = IF Key \in DOMAIN seen THEN seen ELSE seen @@ (Key :> E.out[1])

\* sql level -> ASE level name, "error" for every unsupported or unknown level
Expected(s) == CASE s \in {"0", "2"} -> "RC" [] s = "1" -> "RU" [] s = "4" -> "RR" [] s = "6" -> "SR" [] OTHER -> "error"
T_FromGo == /\ IsEvent("Call") /\ E.fn = "FromGo" /\ Same /\ E.out[1] = Expected(E.arg)
\* ASE level -> sql level: supported levels return themselves (round trip), the rest: one answer
Back(a) == CASE a = "RU" -> "1" [] a = "RC" -> "2" [] a = "RR" -> "4" [] a = "SR" -> "6" [] OTHER -> "any"
T_ToGo == /\ IsEvent("Call") /\ E.fn = "ToGo" /\ Same /\ (Back(E.arg) # "any" => E.out[1] = Back(E.arg))
T_String == /\ IsEvent("Call") /\ E.fn = "String" /\ Same
\* FromGo followed by ToGo on the real values
T_RoundTrip == /\ IsEvent("Call") /\ E.fn = "RoundTrip" /\ Same
               /\ (E.arg \in {"1", "2", "4", "6"} => E.out[1] = E.arg)
Next == T_Reset \/ T_FromGo \/ T_ToGo \/ T_String \/ T_RoundTrip
Spec == Init /\ [][Next]_vars
HW == HWOf(l)
=============================================================================
