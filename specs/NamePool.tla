------------------------------- MODULE NamePool -------------------------------
(* Design model for C18: namepool.Pool (sync.Pool of ids + atomic counter).                        *)
(* sync.Pool is a bag `free` that a garbage collection may empty at any time; Mint is the atomic     *)
(* increment; Release is the two steps of the code (Put, then clear the Name), so a second release  *)
(* by the owner and a concurrent Acquire of the just-put id are real interleavings.                  *)
(* NILCHECK = FALSE removes the `name.id == nil` guard of Release (negative config).                 *)
EXTENDS Integers, FiniteSets, TLC
CONSTANTS Procs, MaxId, NILCHECK
VARIABLES counter, free, pc, nm, recycled
vars == <<counter, free, pc, nm, recycled>>
\* free: id -> how many times it is in the pool
Init == /\ counter = 0 /\ free = [i \in 1..MaxId |-> 0] /\ pc = [p \in Procs |-> "idle"]
        /\ nm = [p \in Procs |-> 0] /\ recycled = FALSE

Get(p) == /\ pc[p] = "idle"
          /\ \/ \E i \in 1..MaxId : free[i] > 0 /\ free' = [free EXCEPT ![i] = @ - 1] /\ nm' = [nm EXCEPT ![p] = i]
                                    /\ recycled' = TRUE /\ UNCHANGED counter
             \/ /\ counter < MaxId /\ counter' = counter + 1 /\ nm' = [nm EXCEPT ![p] = counter + 1]
                /\ UNCHANGED <<free, recycled>>
          /\ pc' = [pc EXCEPT ![p] = "held"]
Put(p) == /\ pc[p] = "held" /\ free' = [free EXCEPT ![nm[p]] = @ + 1] /\ pc' = [pc EXCEPT ![p] = "put"]
          /\ UNCHANGED <<counter, nm, recycled>>
Clear(p) == /\ pc[p] = "put" /\ nm' = [nm EXCEPT ![p] = 0] /\ pc' = [pc EXCEPT ![p] = "released"]
            /\ UNCHANGED <<counter, free, recycled>>
\* releasing the same (already cleared) name again, or releasing nil
Release2(p) == /\ pc[p] = "released"
               /\ IF NILCHECK THEN UNCHANGED free ELSE free' = [free EXCEPT ![1] = @ + 1]  \* would Put a stale id
               /\ pc' = [pc EXCEPT ![p] = "idle"] /\ UNCHANGED <<counter, nm, recycled>>
GC == free' = [i \in 1..MaxId |-> 0] /\ UNCHANGED <<counter, pc, nm, recycled>>
Next == (\E p \in Procs : Get(p) \/ Put(p) \/ Clear(p) \/ Release2(p)) \/ GC
Spec == Init /\ [][Next]_vars

Held == {p \in Procs : pc[p] = "held"}
C18_UniqueAmongHeld == \A p, r \in Held : p # r => nm[p] # nm[r]
C18_NeverZero == \A p \in Held : nm[p] > 0
\* an id that somebody holds is not in the pool at the same time, and never twice in the pool
C18_HeldNotFree == (\A p \in Held : free[nm[p]] = 0) /\ (\A i \in 1..MaxId : free[i] <= 1)
\* reachability (checked as a violated "invariant" in the Recycle config): some behaviour hands a released id out again
NeverRecycled == ~recycled
=============================================================================
