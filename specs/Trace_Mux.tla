------------------------------- MODULE Trace_Mux -------------------------------
(* Trace validation for C12 (contract level).  Events are stamped on the safe side (R2): the peer  *)
(* logs PeerSend before it hands a packet over and PeerSaw when a client packet has arrived; the      *)
(* client logs NewChan / Recv after the call returned.                                               *)
EXTENDS TraceBase
VARIABLES l, ids, inflight, nr, unknown, closed
vars == <<l, ids, inflight, nr, unknown, closed>>
E == Trace[l]
IsEvent(e) == l <= Len(Trace) /\ Trace[l].ev = e /\ l' = l + 1
Init == l = 1 /\ ids = {} /\ inflight = << >> /\ nr = << >> /\ unknown = 0 /\ closed = {} /\ HWInit
T_Reset == IsEvent("Reset") /\ ids' = {} /\ inflight' = << >> /\ nr' = << >> /\ unknown' = 0 /\ closed' = {}

\* setting up a logical channel succeeds when the server acknowledges it; every channel a distinct id
T_NewChan == /\ IsEvent("NewChan")
             /\ E.ok                                     \* the peer acknowledges every setup
             /\ E.id \notin ids
             /\ (E.g > 0 => E.id > 0)
             /\ ids' = ids \cup {E.id}
             /\ UNCHANGED <<inflight, nr, unknown, closed>>
Q(c) == IF c \in DOMAIN inflight THEN inflight[c] ELSE <<>>
Put(c, q) == [x \in DOMAIN inflight \cup {c} |-> IF x = c THEN q ELSE inflight[x]]
\* outgoing packets carry their channel's id with consecutive packet numbers
T_PeerSaw == /\ IsEvent("PeerSaw")
             /\ IF E.chan > 0
                THEN /\ E.nr = (IF E.chan \in DOMAIN nr THEN nr[E.chan] ELSE 0)
                     /\ nr' = [x \in DOMAIN nr \cup {E.chan} |-> IF x = E.chan THEN (E.nr + 1) % 256 ELSE nr[x]]
                ELSE UNCHANGED nr
             /\ UNCHANGED <<ids, inflight, unknown, closed>>
T_PeerSend == /\ IsEvent("PeerSend") /\ inflight' = Put(E.chan, Append(Q(E.chan), E.val))
              /\ UNCHANGED <<ids, nr, unknown, closed>>
\* each package is delivered to exactly the channel named in its packet header, in the order sent
T_Recv == /\ IsEvent("Recv") /\ Q(E.chan) # <<>> /\ Head(Q(E.chan)) = E.val
          /\ inflight' = Put(E.chan, Tail(Q(E.chan)))
          /\ UNCHANGED <<ids, nr, unknown, closed>>
T_Closed == IsEvent("Closed") /\ closed' = closed \cup {E.chan} /\ UNCHANGED <<ids, inflight, nr, unknown>>
T_Unknown == IsEvent("PeerSendUnknown") /\ (E.chan \notin ids \/ E.chan \in closed) /\ unknown' = unknown + 1 /\ UNCHANGED <<ids, inflight, nr, closed>>
\* packets for a channel that does not exist: a connection error each, otherwise ignored
T_ConnErrs == /\ IsEvent("ConnErrs") /\ E.n = unknown /\ E.unknown = unknown
              /\ \A c \in DOMAIN inflight : inflight[c] = <<>>          \* and everything sent was received
              /\ UNCHANGED <<ids, inflight, nr, unknown, closed>>
Next == T_Reset \/ T_NewChan \/ T_PeerSaw \/ T_PeerSend \/ T_Recv \/ T_Closed \/ T_Unknown \/ T_ConnErrs
Spec == Init /\ [][Next]_vars
HW == HWOf(l)
=============================================================================
