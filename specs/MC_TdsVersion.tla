----------------------------- MODULE MC_TdsVersion -----------------------------
EXTENDS TdsVersion
VARIABLE dummy
ASSUME OrderLaws({0, 1, 255})
ASSUME Cmp(<<1, 2, 3, 4>>, <<1, 2, 4, 0>>) = 0 - 1 /\ Cmp(<<2, 0, 0, 0>>, <<1, 255, 255, 255>>) = 1
ASSUME Parse(<<[ok |-> TRUE, val |-> 16], [ok |-> TRUE, val |-> 0], [ok |-> TRUE, val |-> 3], [ok |-> TRUE, val |-> 255]>>) = <<16, 0, 3, 255>>
ASSUME Parse(<<[ok |-> TRUE, val |-> 256], [ok |-> TRUE, val |-> 0], [ok |-> TRUE, val |-> 3], [ok |-> TRUE, val |-> 1]>>) = <<>>
ASSUME Parse(<<[ok |-> TRUE, val |-> 1], [ok |-> TRUE, val |-> 0], [ok |-> TRUE, val |-> 3]>>) = <<>>
ASSUME Parse(<<[ok |-> TRUE, val |-> 0 - 1], [ok |-> TRUE, val |-> 0], [ok |-> TRUE, val |-> 3], [ok |-> TRUE, val |-> 1]>>) = IF NEGWRAP THEN <<255, 0, 3, 1>> ELSE <<>>
Init == dummy = 0
Next == UNCHANGED dummy
=============================================================================
