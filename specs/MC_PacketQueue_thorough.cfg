SPECIFICATION Spec
CONSTANTS
  Bodies = {2, 3}
  MaxBytes = 8
  MaxSteps = 7
  MaxRead = 4
  GEN = FALSE
INVARIANTS C15_Refines C15_ReadReturnsFlat C15_DiscardKeepsUnread C15_Layout C15_AllConsumedMeansEnd
VIEW View
CHECK_DEADLOCK FALSE
