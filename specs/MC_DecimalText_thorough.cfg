SPECIFICATION Spec
CONSTANTS MaxP = 6
 Digs = {0, 1, 5, 9}
INVARIANTS C16_RoundTrip C16_Shape
CHECK_DEADLOCK FALSE
