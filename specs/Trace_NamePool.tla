---------------------------- MODULE Trace_NamePool ----------------------------
(* Trace validation for C18 (contract level, no silent steps).  A name counts as held from the     *)
(* event stamped after Acquire returned (AcqEnd) to the event stamped before Release is called       *)
(* (RelStart): an overlap in the trace is an overlap in reality.                                     *)
EXTENDS TraceBase
VARIABLES l, held, texts
vars == <<l, held, texts>>
E == Trace[l]
IsEvent(e) == l <= Len(Trace) /\ Trace[l].ev = e /\ l' = l + 1
Init == l = 1 /\ held = {} /\ texts = {} /\ HWInit
T_Reset == IsEvent("Reset") /\ held' = {} /\ texts' = {}
T_AcqEnd == /\ IsEvent("AcqEnd")
            /\ E.id # 0                          \* ids are never zero
            /\ E.id \notin held                  \* no two holders of one id
            /\ E.text \notin texts               \* nor of one text
            /\ E.textok                          \* text = format applied to the id
            /\ held' = held \cup {E.id} /\ texts' = texts \cup {E.text}
T_RelStart == /\ IsEvent("RelStart") /\ E.id \in held
              /\ held' = held \ {E.id} /\ texts' = texts \ {E.text}
\* Release returned: the name reads as cleared
T_RelEnd == IsEvent("RelEnd") /\ E.cleared /\ ~E.panic /\ UNCHANGED <<held, texts>>
\* a second release of the same name, or a release of nil: harmless
T_Rel2 == IsEvent("Rel2") /\ ~E.panic /\ UNCHANGED <<held, texts>>
\* summary of an untraced stress run (the harness kept the set of held ids): no id was handed to a second holder
T_Stress == IsEvent("Stress") /\ E.dups = 0 /\ E.ops > 0 /\ UNCHANGED <<held, texts>>
Next == T_Reset \/ T_AcqEnd \/ T_RelStart \/ T_RelEnd \/ T_Rel2 \/ T_Stress
Spec == Init /\ [][Next]_vars
HW == HWOf(l)
=============================================================================
