---------------------------- MODULE Trace_TermSplit ----------------------------
(* Trace validation for the statement splitter (spec growth, no listed property): every event is one   *)
(* call of term.ParseAndExecQueries on a line (code points) with an executor that fails at its fail-th  *)
(* query (0: never); queries = what the executor was given, in order; err = the call returned an error. *)
EXTENDS TraceBase
VARIABLES l
vars == <<l>>
S == INSTANCE TermSplit WITH MaxLen <- 0, Chars <- {}, FailAt <- 0, Quotes <- {34, 39}, Semi <- 59, TAILALWAYS <- FALSE,
                             line <- <<>>, i <- 0, cur <- <<>>, quoted <- FALSE, done <- <<>>, failed <- FALSE
E == Trace[l]
IsEvent(e) == l <= Len(Trace) /\ Trace[l].ev = e /\ l' = l + 1
Init == l = 1 /\ HWInit
T_Reset == IsEvent("Reset")
T_Split == /\ IsEvent("Split") /\ E.st # "panic"
           /\ E.queries = S!Executed(E.line, E.fail)
           /\ E.err = (E.fail # 0 /\ E.fail <= Len(S!Split(E.line)))
Next == T_Reset \/ T_Split
Spec == Init /\ [][Next]_vars
HW == HWOf(l)
=============================================================================
