SPECIFICATION Spec
CONSTANTS
  K = 1
  NPKG = 3
  PEERANSWERS = FALSE
  CLOSESIGNAL = TRUE
  Closers = {"X"}
  RECHECK = TRUE
  SENDER = FALSE
  RELOCK = FALSE
  GEN = FALSE
INVARIANTS C13_NoDeliveryAfterClose C13_ClosedReported
PROPERTIES C13_CloseReturns C13_RecvReturnsAfterCancel
CHECK_DEADLOCK FALSE
