---------------------------- MODULE NamePoolProof ----------------------------
EXTENDS Integers, FiniteSets, TLAPS
CONSTANTS Procs, MaxId
ASSUME MaxIdNat == MaxId \in Nat
VARIABLES counter, free, pc, nm
vars == <<counter, free, pc, nm>>
Init == /\ counter = 0 /\ free = [i \in 1..MaxId |-> 0] /\ pc = [p \in Procs |-> "idle"] /\ nm = [p \in Procs |-> 0]
Get(p) == /\ pc[p] = "idle"
          /\ \/ \E i \in 1..MaxId : free[i] > 0 /\ free' = [free EXCEPT ![i] = @ - 1] /\ nm' = [nm EXCEPT ![p] = i] /\ UNCHANGED counter
             \/ /\ counter < MaxId /\ counter' = counter + 1 /\ nm' = [nm EXCEPT ![p] = counter + 1] /\ UNCHANGED free
          /\ pc' = [pc EXCEPT ![p] = "held"]
Put(p) == /\ pc[p] = "held" /\ free' = [free EXCEPT ![nm[p]] = @ + 1] /\ pc' = [pc EXCEPT ![p] = "put"] /\ UNCHANGED <<counter, nm>>
Clear(p) == /\ pc[p] = "put" /\ nm' = [nm EXCEPT ![p] = 0] /\ pc' = [pc EXCEPT ![p] = "released"] /\ UNCHANGED <<counter, free>>
Release2(p) == /\ pc[p] = "released" /\ pc' = [pc EXCEPT ![p] = "idle"] /\ UNCHANGED <<counter, free, nm>>
GC == free' = [i \in 1..MaxId |-> 0] /\ UNCHANGED <<counter, pc, nm>>
Next == (\E p \in Procs : Get(p) \/ Put(p) \/ Clear(p) \/ Release2(p)) \/ GC
Spec == Init /\ [][Next]_vars
TypeOK == /\ counter \in 0..MaxId /\ free \in [1..MaxId -> 0..1]
          /\ pc \in [Procs -> {"idle", "held", "put", "released"}] /\ nm \in [Procs -> 0..MaxId]
Unique == \A p \in Procs : \A r \in Procs : (pc[p] = "held" /\ pc[r] = "held" /\ p # r) => nm[p] # nm[r]
IndInv == /\ TypeOK
          /\ Unique
          /\ \A p \in Procs : pc[p] = "held" => (nm[p] \in 1..counter /\ free[nm[p]] = 0)
          /\ \A i \in 1..MaxId : i > counter => free[i] = 0
          /\ \A p \in Procs : pc[p] = "put" => nm[p] \in 1..counter

THEOREM Safety == Spec => []Unique
<1>1. Init => IndInv
  BY MaxIdNat DEF Init, IndInv, TypeOK, Unique
<1>2. IndInv /\ [Next]_vars => IndInv'
  <2> SUFFICES ASSUME IndInv, [Next]_vars PROVE IndInv'
    OBVIOUS
  <2>1. ASSUME NEW p \in Procs, Get(p) PROVE IndInv'
    BY <2>1, MaxIdNat DEF Get, IndInv, TypeOK, Unique
  <2>2. ASSUME NEW p \in Procs, Put(p) PROVE IndInv'
    BY <2>2, MaxIdNat DEF Put, IndInv, TypeOK, Unique
  <2>3. ASSUME NEW p \in Procs, Clear(p) PROVE IndInv'
    BY <2>3, MaxIdNat DEF Clear, IndInv, TypeOK, Unique
  <2>4. ASSUME NEW p \in Procs, Release2(p) PROVE IndInv'
    BY <2>4, MaxIdNat DEF Release2, IndInv, TypeOK, Unique
  <2>5. ASSUME GC PROVE IndInv'
    BY <2>5, MaxIdNat DEF GC, IndInv, TypeOK, Unique
  <2>6. ASSUME UNCHANGED vars PROVE IndInv'
    BY <2>6 DEF vars, IndInv, TypeOK, Unique
  <2> QED BY <2>1, <2>2, <2>3, <2>4, <2>5, <2>6 DEF Next
<1>3. IndInv => Unique
  BY DEF IndInv
<1> QED BY <1>1, <1>2, <1>3, PTL DEF Spec
=============================================================================
