------------------------------ MODULE Trace_Login ------------------------------
(* Trace validation for C08 and C09.  One scenario = one login against the scripted peer:          *)
(*   Login    flow, the server reply script (abstract packages as in LoginSpec), number of remote    *)
(*            servers configured                                                                     *)
(*   Result   outcome of Channel.Login (success / error / panic / outlived), capabilities and packet *)
(*            size of the connection afterwards                                                       *)
(*   LoginRec the login record as decoded by the harness: password slot, seclogin byte               *)
(*   Scan     do the secrets occur in clear in any byte written / in an error text                   *)
(*   Cipher   one ciphertext of the encrypted reply, decrypted with the peer's private key           *)
(*   ReplyEnd end of the encrypted reply                                                             *)
(* JUDGE selects the property: C08 judges Result, C09 judges LoginRec / Scan / Cipher / ReplyEnd,     *)
(* C10 only that the login does not panic.                                                             *)
EXTENDS TraceBase, LoginSpec
VARIABLES l, flow, script, nrem, outcome, ciphers
vars == <<l, flow, script, nrem, outcome, ciphers>>
Judge == IF "JUDGE" \in DOMAIN IOEnv THEN IOEnv.JUDGE ELSE "ALL"
J08 == Judge \in {"C08", "ALL"}
J09 == Judge \in {"C09", "ALL"}
J10 == Judge \in {"C10", "ALL"}
E == Trace[l]
IsEvent(e) == l <= Len(Trace) /\ Trace[l].ev = e /\ l' = l + 1
Init == l = 1 /\ flow = "none" /\ script = <<>> /\ nrem = 0 /\ outcome = "none" /\ ciphers = <<>> /\ HWInit
T_Reset == IsEvent("Reset") /\ flow' = "none" /\ script' = <<>> /\ nrem' = 0 /\ outcome' = "none" /\ ciphers' = <<>>
T_Login == /\ IsEvent("Login") /\ flow' = E.flow /\ script' = E.script /\ nrem' = E.nrem
           /\ outcome' = "none" /\ ciphers' = <<>>

T_Result ==
    /\ IsEvent("Result")
    /\ J08 => /\ E.outcome \in {"success", "error"}                       \* never a crash, never a wait that outlives the context
              /\ LET v == Verdict(flow, script) IN
                 /\ (v = "S" => E.outcome = "success")                    \* a valid acceptance succeeds
                 /\ (v = "F" => E.outcome = "error")                      \* every other reply sequence is an error
              /\ (E.outcome = "success" /\ flow = "enc") => E.capsok      \* the capability set the server returned
              /\ (E.outcome = "success" /\ HasPacksize(flow, script) /\ Verdict(flow, script) = "S") => E.ps = E.announced
    /\ J10 => E.outcome # "panic"                                         \* C10: no server reply crashes the login
    /\ outcome' = E.outcome
    /\ UNCHANGED <<flow, script, nrem, ciphers>>

T_LoginRec ==
    /\ IsEvent("LoginRec")
    /\ J09 => IF flow = "enc"
              THEN E.slotempty /\ E.rempwempty                          \* the password slot is empty
              ELSE E.slotclear                                            \* control: the plain flow sends it in its slot
    /\ UNCHANGED <<flow, script, nrem, outcome, ciphers>>
T_Scan ==
    /\ IsEvent("Scan")
    /\ J09 => /\ (flow = "enc" => ~E.pwclear /\ ~E.rempwclear)            \* no secret in clear in any byte written
              /\ (flow = "enc" => ~E.errleak)                             \* nor in any error text
    /\ UNCHANGED <<flow, script, nrem, outcome, ciphers>>
T_Cipher ==
    /\ IsEvent("Cipher")
    /\ J09 => /\ E.decrypts /\ E.nonceok                                  \* RSA-OAEP/SHA-1 of nonce || secret
              /\ E.fresh                                                  \* each with fresh randomness
              /\ E.class \in {"pw", "rempw", "key32"}
    /\ ciphers' = Append(ciphers, E.class)
    /\ UNCHANGED <<flow, script, nrem, outcome>>
\* exactly: the password, one entry per remote server (the login server first), the session key
ExpectedCiphers == <<"pw">> \o [i \in 1..(nrem + 1) |-> "rempw"] \o <<"key32">>
T_ReplyEnd ==
    /\ IsEvent("ReplyEnd")
    /\ J09 => (flow = "enc" /\ ciphers = ExpectedCiphers)
    /\ UNCHANGED <<flow, script, nrem, outcome, ciphers>>
\* two logins on one connection (the first refused after the credentials were sent): both session keys reach
\* the server, and the second one is fresh
T_TwoLogins == /\ IsEvent("TwoLogins")
               /\ J09 => /\ E.outcomes = <<"error", "success">> /\ E.keys = 2 /\ ~E.samekey
               /\ UNCHANGED <<flow, script, nrem, outcome, ciphers>>
Next == T_TwoLogins \/ T_Reset \/ T_Login \/ T_Result \/ T_LoginRec \/ T_Scan \/ T_Cipher \/ T_ReplyEnd
Spec == Init /\ [][Next]_vars
HW == HWOf(l)
=============================================================================
