----------------------------- MODULE PacketReader -----------------------------
(* Byte-level design model of the packet reader (tds/packetHeader.go PacketHeader.ReadFrom with    *)
(* io.ReadFull, tds/packet.go Packet.ReadFrom body loop, tds/conn.go ReadFrom) for C02 (any read      *)
(* partition, also inside a header) and C14 (transport failure at any byte offset).                   *)
(* The peer's byte stream is a sequence of packets [len, id]; byte k of the stream is numbered k.      *)
(* Each Read delivers 1..MaxChunk bytes (but never more than asked for), or - once the stream is       *)
(* exhausted or the scripted failure offset is reached - the failure: "eof" or "err".                  *)
(* HEADERFULL = FALSE is the pinned header read (a single Read, fewer than 8 bytes is an error).       *)
(* Failure kind "eofd": the transport reports the end of the stream together with the last bytes it    *)
(* delivers (an io.Reader may).  EOFOK = TRUE is the repaired body loop (a complete packet is a packet,   *)
(* the next read reports the end); EOFOK = FALSE is the pinned one: the complete packet is passed on,     *)
(* but the reader goroutine then ends without queueing an error ("dead").                                  *)
(* A stream element b < 0 is a packet whose header announces the length 8 + b, less than the header     *)
(* itself (C10: all header values incl. length < 8); it occupies its 8 header bytes.  CHECKLEN = TRUE   *)
(* is the repaired reader, which rejects such a header; CHECKLEN = FALSE is the pinned one: the body    *)
(* size wraps around (WRAP stands for the code's 2^16), the following bytes are swallowed as body and,   *)
(* as the number of bytes read can never equal the announced length, the reader loops on zero-length    *)
(* reads for ever ("spin": neither a packet nor an error).                                               *)
EXTENDS Integers, Sequences, TLC
CONSTANTS Streams,      \* set of streams: sequences of body lengths
          MaxChunk, HEADERFULL, FailKinds, CHECKLEN, WRAP, EOFOK
HDR == 8
VARIABLES stream, failAt, failKind, pos, pc, need, got, hdrGot, out, errs
vars == <<stream, failAt, failKind, pos, pc, need, got, hdrGot, out, errs>>
RECURSIVE Total(_, _)
Total(s, i) == IF i = 0 THEN 0 ELSE Total(s, i - 1) + HDR + (IF s[i] < 0 THEN 0 ELSE s[i])
Init == /\ stream \in Streams /\ failAt \in 0..Total(stream, Len(stream)) /\ failKind \in FailKinds
        /\ pos = 0 /\ pc = "hdr" /\ need = HDR /\ got = 0 /\ hdrGot = 0 /\ out = <<>> /\ errs = 0
Limit == IF failKind = "none" THEN Total(stream, Len(stream)) ELSE failAt
Avail == Limit - pos
\* index of the packet whose header starts at pos (0 if pos is not a packet start)
RECURSIVE PktAt(_, _)
PktAt(p, i) == IF i > Len(stream) THEN 0 ELSE IF Total(stream, i - 1) = p THEN i ELSE PktAt(p, i + 1)

\* one Read call of the header phase
ReadHdr(n) ==
    /\ pc = "hdr" /\ errs = 0 /\ Avail > 0 /\ n \in 1..MaxChunk /\ n <= Avail /\ n <= HDR - hdrGot
    /\ pos' = pos + n
    /\ IF hdrGot + n = HDR
       THEN LET k == PktAt(pos + n - HDR, 1) IN
            /\ hdrGot' = 0
            /\ IF stream[k] < 0 /\ CHECKLEN THEN /\ errs' = 1 /\ UNCHANGED <<pc, need, got, out>>             \* invalid length: an error
               ELSE IF stream[k] < 0 THEN /\ pc' = "badbody" /\ need' = WRAP + stream[k] /\ got' = 0 /\ UNCHANGED <<out, errs>>
               ELSE IF stream[k] = 0 THEN /\ out' = Append(out, k) /\ pc' = "hdr" /\ UNCHANGED <<need, got, errs>>   \* header-only packet
               ELSE /\ pc' = "body" /\ need' = stream[k] /\ got' = 0 /\ UNCHANGED <<out, errs>>
       ELSE IF HEADERFULL THEN hdrGot' = hdrGot + n /\ UNCHANGED <<pc, need, got, out, errs>>
            ELSE errs' = 1 /\ UNCHANGED <<pc, need, got, hdrGot, out>>      \* pinned: short header read is an error
    /\ UNCHANGED <<stream, failAt, failKind>>
ReadBody(n) ==
    /\ pc = "body" /\ errs = 0 /\ Avail > 0 /\ n \in 1..MaxChunk /\ n <= Avail /\ n <= need - got
    /\ pos' = pos + n
    /\ IF got + n = need
       THEN /\ out' = Append(out, PktAt(pos + n - need - HDR, 1)) /\ got' = 0 /\ UNCHANGED need
            /\ pc' = IF failKind = "eofd" /\ pos + n = Limit /\ ~EOFOK THEN "dead" ELSE "hdr"
       ELSE got' = got + n /\ UNCHANGED <<out, pc, need>>
    /\ UNCHANGED <<stream, failAt, failKind, hdrGot, errs>>
\* pinned reader behind a header with a length below 8: the wrapped body size is read from whatever follows;
\* once it is complete the loop condition (bytes read = announced length) can never hold
ReadBadBody(n) ==
    /\ pc = "badbody" /\ errs = 0 /\ Avail > 0 /\ n \in 1..MaxChunk /\ n <= Avail /\ n <= need - got
    /\ pos' = pos + n
    /\ IF got + n = need THEN pc' = "spin" /\ got' = 0 ELSE got' = got + n /\ UNCHANGED pc
    /\ UNCHANGED <<stream, failAt, failKind, hdrGot, errs, out, need>>
\* the transport has nothing more: the failure surfaces as an error (EOF in a body only after the read timeout)
Fail == /\ errs = 0 /\ Avail = 0 /\ (failKind # "none" \/ pos = Total(stream, Len(stream)))
        /\ pc \notin {"spin", "dead"}        \* a spinning reader issues zero-length reads, which never fail; a dead one none
        /\ errs' = 1 /\ UNCHANGED <<stream, failAt, failKind, pos, pc, need, got, hdrGot, out>>
Next == (\E n \in 1..MaxChunk : ReadHdr(n) \/ ReadBody(n) \/ ReadBadBody(n)) \/ Fail
Spec == Init /\ [][Next]_vars /\ WF_vars(Next)

\* packets are emitted in order, each exactly once, only when completely received
C02_PacketsInOrder == out = [i \in 1..Len(out) |-> i]
C14_OnlyCompletePackets == \A i \in 1..Len(out) : Total(stream, i) <= pos /\ Total(stream, i) <= Limit
\* without a failure no read partition produces an error before the stream ends
\* (a header with an invalid length ends the stream for the reader: GoodPrefix packets precede it)
RECURSIVE GoodUpTo(_)
GoodUpTo(i) == IF i > Len(stream) \/ stream[i] < 0 THEN i - 1 ELSE GoodUpTo(i + 1)
GoodPrefix == GoodUpTo(1)
C02_NoErrorFromPartition == (failKind = "none" /\ errs = 1) => Len(out) = GoodPrefix
\* at least every completely received packet is emitted before the error
C14_CompleteBeforeError == errs = 1 => \A i \in 1..GoodPrefix : Total(stream, i) <= Limit => i <= Len(out)
C14_ErrorEventually == <>(errs = 1)
\* C10: the reader always returns - packets or an error, never an endless loop
C10_NeverSpins == pc # "spin"
\* nothing is emitted from behind an invalid header
C10_NothingBehindBadLength == \A i \in 1..Len(out) : \A j \in 1..i : stream[j] >= 0
=============================================================================
