----------------------------- MODULE PacketReader -----------------------------
(* Byte-level design model of the packet reader (tds/packetHeader.go PacketHeader.ReadFrom with    *)
(* io.ReadFull, tds/packet.go Packet.ReadFrom body loop, tds/conn.go ReadFrom) for C02 (any read      *)
(* partition, also inside a header) and C14 (transport failure at any byte offset).                   *)
(* The peer's byte stream is a sequence of packets [len, id]; byte k of the stream is numbered k.      *)
(* Each Read delivers 1..MaxChunk bytes (but never more than asked for), or - once the stream is       *)
(* exhausted or the scripted failure offset is reached - the failure: "eof" or "err".                  *)
(* HEADERFULL = FALSE is the pinned header read (a single Read, fewer than 8 bytes is an error).       *)
EXTENDS Integers, Sequences, TLC
CONSTANTS Streams,      \* set of streams: sequences of body lengths
          MaxChunk, HEADERFULL, FailKinds
HDR == 8
VARIABLES stream, failAt, failKind, pos, pc, need, got, hdrGot, out, errs
vars == <<stream, failAt, failKind, pos, pc, need, got, hdrGot, out, errs>>
RECURSIVE Total(_, _)
Total(s, i) == IF i = 0 THEN 0 ELSE Total(s, i - 1) + HDR + s[i]
Init == /\ stream \in Streams /\ failAt \in 0..Total(stream, Len(stream)) /\ failKind \in FailKinds
        /\ pos = 0 /\ pc = "hdr" /\ need = HDR /\ got = 0 /\ hdrGot = 0 /\ out = <<>> /\ errs = 0
Limit == IF failKind = "none" THEN Total(stream, Len(stream)) ELSE failAt
Avail == Limit - pos
\* index of the packet whose header starts at pos (0 if pos is not a packet start)
RECURSIVE PktAt(_, _)
PktAt(p, i) == IF i > Len(stream) THEN 0 ELSE IF Total(stream, i - 1) = p THEN i ELSE PktAt(p, i + 1)

\* one Read call of the header phase
ReadHdr(n) ==
    /\ pc = "hdr" /\ errs = 0 /\ Avail > 0 /\ n \in 1..MaxChunk /\ n <= Avail /\ n <= HDR - hdrGot
    /\ pos' = pos + n
    /\ IF hdrGot + n = HDR
       THEN LET k == PktAt(pos + n - HDR, 1) IN
            /\ hdrGot' = 0
            /\ IF stream[k] = 0 THEN /\ out' = Append(out, k) /\ pc' = "hdr" /\ UNCHANGED <<need, got>>   \* header-only packet
               ELSE /\ pc' = "body" /\ need' = stream[k] /\ got' = 0 /\ UNCHANGED out
            /\ UNCHANGED errs
       ELSE IF HEADERFULL THEN hdrGot' = hdrGot + n /\ UNCHANGED <<pc, need, got, out, errs>>
            ELSE errs' = 1 /\ UNCHANGED <<pc, need, got, hdrGot, out>>      \* pinned: short header read is an error
    /\ UNCHANGED <<stream, failAt, failKind>>
ReadBody(n) ==
    /\ pc = "body" /\ errs = 0 /\ Avail > 0 /\ n \in 1..MaxChunk /\ n <= Avail /\ n <= need - got
    /\ pos' = pos + n
    /\ IF got + n = need
       THEN /\ out' = Append(out, PktAt(pos + n - need - HDR, 1)) /\ pc' = "hdr" /\ got' = 0 /\ UNCHANGED need
       ELSE got' = got + n /\ UNCHANGED <<out, pc, need>>
    /\ UNCHANGED <<stream, failAt, failKind, hdrGot, errs>>
\* the transport has nothing more: the failure surfaces as an error (EOF in a body only after the read timeout)
Fail == /\ errs = 0 /\ Avail = 0 /\ (failKind # "none" \/ pos = Total(stream, Len(stream)))
        /\ errs' = 1 /\ UNCHANGED <<stream, failAt, failKind, pos, pc, need, got, hdrGot, out>>
Next == (\E n \in 1..MaxChunk : ReadHdr(n) \/ ReadBody(n)) \/ Fail
Spec == Init /\ [][Next]_vars /\ WF_vars(Next)

\* packets are emitted in order, each exactly once, only when completely received
C02_PacketsInOrder == out = [i \in 1..Len(out) |-> i]
C14_OnlyCompletePackets == \A i \in 1..Len(out) : Total(stream, i) <= pos /\ Total(stream, i) <= Limit
\* without a failure no read partition produces an error before the stream ends
C02_NoErrorFromPartition == (failKind = "none" /\ errs = 1) => Len(out) = Len(stream)
\* at least every completely received packet is emitted before the error
C14_CompleteBeforeError == errs = 1 => \A i \in 1..Len(stream) : Total(stream, i) <= Limit => i <= Len(out)
C14_ErrorEventually == <>(errs = 1)
=============================================================================
