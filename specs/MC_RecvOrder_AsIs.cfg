SPECIFICATION Spec
CONSTANTS
  NPKG = 3
  PREFER = FALSE
INVARIANTS C14_PackagesThenError C14_InOrder
PROPERTIES C14_ErrorEventually
CHECK_DEADLOCK FALSE
