------------------------------ MODULE PQOps ------------------------------
(* Code-shaped operators of tds.PacketQueue (tds/packetQueue.go), shared by the PacketQueue,   *)
(* TxPath and RxPath design models.  A queue is a record                                       *)
(*     [pk  : Seq([cap : Nat, data : Seq(Int)]),   \* queue.queue; cap = Header.Length - 8     *)
(*      ip  : Nat,  id : Nat,                      \* indexPacket (0-based, as in Go), indexData*)
(*      eom : BOOLEAN]                             \* recvEOM                                   *)
(* Bytes are integers; 0 is the padding that make([]byte, n) produces.                          *)
EXTENDS Integers, Sequences

Zeros(n) == [i \in 1..n |-> 0]

PQ_Empty == [pk |-> <<>>, ip |-> 0, id |-> 0, eom |-> FALSE]

\* AddPacket(packet): append, remember EOM
PQ_Add(q, data, eom) ==
    [q EXCEPT !.pk = Append(@, [cap |-> Len(data), data |-> data]), !.eom = @ \/ eom]

\* AllPacketsConsumed()
PQ_AllConsumed(q) ==
    \/ (Len(q.pk) = 0 /\ q.ip = 0 /\ q.id = 0)
    \/ q.ip >= Len(q.pk)
    \/ (q.ip = Len(q.pk) - 1 /\ q.id = Len(q.pk[q.ip + 1].data))

PQ_IsEOM(q) == PQ_AllConsumed(q) /\ q.eom

\* Bytes(n): [st |-> "ok"/"need", q |-> queue afterwards, bs |-> bytes copied so far]
RECURSIVE PQ_BytesLoop(_, _, _)
PQ_BytesLoop(q, n, acc) ==
    IF n = 0 THEN [st |-> "ok", q |-> q, bs |-> acc]
    ELSE IF PQ_AllConsumed(q) THEN [st |-> "need", q |-> q, bs |-> acc]
    ELSE LET data == q.pk[q.ip + 1].data
             end  == IF q.id + n > Len(data) THEN Len(data) ELSE q.id + n
             got  == SubSeq(data, q.id + 1, end)
             q2   == IF end = Len(data) THEN [q EXCEPT !.ip = q.ip + 1, !.id = 0]
                                        ELSE [q EXCEPT !.id = end]
         IN PQ_BytesLoop(q2, n - (end - q.id), acc \o got)
PQ_Bytes(q, n) == PQ_BytesLoop(q, n, <<>>)

\* SetPosition
PQ_SetPos(q, ip, id) == [q EXCEPT !.ip = ip, !.id = id]

\* DiscardUntilCurrentPosition()
PQ_Discard(q) ==
    LET pk1 == IF q.ip >= Len(q.pk) THEN <<>> ELSE SubSeq(q.pk, q.ip + 1, Len(q.pk)) IN
    IF Len(pk1) = 0 THEN [q EXCEPT !.pk = pk1, !.ip = 0, !.id = 0]
    ELSE IF q.id >= Len(pk1[1].data) THEN [q EXCEPT !.pk = Tail(pk1), !.ip = 0, !.id = 0]
    ELSE [q EXCEPT !.pk = pk1, !.ip = 0]

\* WriteBytes(bs) with packets of body size `body` in force
NewPk(body) == [cap |-> body, data |-> Zeros(body)]
RECURSIVE PQ_Write(_, _, _)
PQ_Write(q, bs, body) ==
    IF bs = <<>> THEN q
    ELSE LET q1   == IF q.ip = Len(q.pk) THEN [q EXCEPT !.pk = Append(@, NewPk(body))] ELSE q
             free0 == q1.pk[q1.ip + 1].cap - q1.id
             q2   == IF free0 = 0
                     THEN [q1 EXCEPT !.pk = Append(@, NewPk(body)), !.ip = q1.ip + 1, !.id = 0]
                     ELSE q1
             \* Go: after append the *new* packet is the last one, but indexPacket++ may point
             \* elsewhere if the position was not at the last packet; the model follows the code:
             cp   == IF free0 = 0 THEN Len(q2.pk) ELSE q2.ip + 1      \* 1-based index of curPacket
             free1 == IF free0 = 0 THEN body ELSE free0
             k    == IF free1 > Len(bs) THEN Len(bs) ELSE free1
             old  == q2.pk[cp].data
             new  == [i \in 1..Len(old) |-> IF i > q2.id /\ i <= q2.id + k THEN bs[i - q2.id] ELSE old[i]]
             q3   == [q2 EXCEPT !.pk[cp].data = new, !.id = q2.id + k]
         IN PQ_Write(q3, SubSeq(bs, k + 1, Len(bs)), body)

\* ghost helpers -----------------------------------------------------------------------------
RECURSIVE FlattenTo(_, _)
FlattenTo(pk, i) == IF i = 0 THEN <<>> ELSE FlattenTo(pk, i - 1) \o pk[i].data
Flatten(pk) == FlattenTo(pk, Len(pk))
RECURSIVE LenTo(_, _)
LenTo(pk, i) == IF i = 0 THEN 0 ELSE LenTo(pk, i - 1) + Len(pk[i].data)
\* byte offset of position (ip, id) from the start of the queue
PQ_Offset(q) == LenTo(q.pk, IF q.ip > Len(q.pk) THEN Len(q.pk) ELSE q.ip) + q.id
=============================================================================
