SPECIFICATION Spec
CONSTANTS Procs = {1, 2, 3}
 MaxId = 4
 NILCHECK = TRUE
INVARIANTS C18_UniqueAmongHeld C18_NeverZero C18_HeldNotFree
CHECK_DEADLOCK FALSE
