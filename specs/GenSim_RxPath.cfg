SPECIFICATION Spec
CONSTANTS
  MaxBody = 3
  Shapes <- ShapesQ3
  Rounds = 2
  RESETLAST = TRUE
  HDRDATA = TRUE
  MaxEmpty = 1
  GEN = TRUE
CONSTRAINT GenPrint
CHECK_DEADLOCK FALSE
