SPECIFICATION Spec
CONSTANTS
  MaxBody = 3
  Shapes <- Shapes3
  Rounds = 2
  GEN = TRUE
CONSTRAINT GenPrint
CHECK_DEADLOCK FALSE
