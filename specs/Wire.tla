--------------------------------- MODULE Wire ---------------------------------
(* The TDS 5.0 package layouts as an executable specification (C06, C07, C10): the independent     *)
(* codec the properties ask for, written from the protocol layouts (DESIGN.md Appendix B), not from  *)
(* the Go writers.  Bytes are integers 0..255; multi-byte integers are little endian (the client's    *)
(* byte order); a "len" field counts everything that follows it in the package.                       *)
(* A package is [kind, f] with f a record of field values: integers (0 <= v < 2^31) and byte         *)
(* sequences for strings.  Enc(kind, f) is the complete encoding including the token byte.            *)
EXTENDS Integers, Sequences, SequencesExt, FiniteSets

U8(v) == <<v % 256>>
U16(v) == <<v % 256, (v \div 256) % 256>>
U32(v) == <<v % 256, (v \div 256) % 256, (v \div 65536) % 256, (v \div 16777216) % 256>>
S8(s) == U8(Len(s)) \o s
S16(s) == U16(Len(s)) \o s
S32(s) == U32(Len(s)) \o s
Len16(body) == U16(Len(body)) \o body
Len32(body) == U32(Len(body)) \o body
RECURSIVE Cat(_)
Cat(ss) == IF ss = <<>> THEN <<>> ELSE Head(ss) \o Cat(Tail(ss))
Bit(v, b) == (v \div b) % 2 = 1

Tok == [EED |-> 229, ERROR |-> 170, LOGINACK |-> 173, DONE |-> 253, DONEPROC |-> 254, DONEINPROC |-> 255,
        MSG |-> 101, PARAMFMT |-> 236, PARAMFMT2 |-> 32, ROWFMT |-> 238, ROWFMT2 |-> 97, PARAMS |-> 215, ROW |-> 209,
        CAPABILITY |-> 226, ENVCHANGE |-> 227, LANGUAGE |-> 33, ORDERBY |-> 169, ORDERBY2 |-> 34, RETURNSTATUS |-> 121,
        LOGOUT |-> 113, DYNAMIC |-> 231, DYNAMIC2 |-> 98, CURDECLARE |-> 134, CURDECLARE3 |-> 16, CURINFO |-> 131,
        CURINFO3 |-> 136, CUROPEN |-> 132, CURFETCH |-> 130, CURUPDATE |-> 133, CURDELETE |-> 129]

\* cursor id, and the cursor name only when the id is 0
CurRef(f) == U32(f.cursorid) \o (IF f.cursorid = 0 THEN S8(f.name) ELSE <<>>)

\* ---- data type classes (format trailers and data framing)
Fixed == (50 :> 1) @@ (49 :> 4) @@ (61 :> 8) @@ (59 :> 4) @@ (62 :> 8) @@ (48 :> 1) @@ (52 :> 2) @@ (56 :> 4) @@ (191 :> 8)
         @@ (60 :> 8) @@ (58 :> 4) @@ (122 :> 4) @@ (51 :> 4) @@ (65 :> 2) @@ (66 :> 4) @@ (67 :> 8)
Len1 == {45, 47, 123, 111, 109, 38, 110, 147, 68, 37, 39}     \* BINARY CHAR DATEN DATETIMEN FLTN INTN MONEYN TIMEN UINTN VARBINARY VARCHAR
Len1PS == {106, 108}                                          \* DECN NUMN: precision, scale
Len1S == {187, 188}                                           \* BIGDATETIMEN BIGTIMEN: scale
Len4 == {225, 175}                                            \* LONGBINARY LONGCHAR
Txt == {35, 34, 174, 163}                                     \* TEXT IMAGE UNITEXT XML: table name

\* one column of a format package: c = [label, catalogue, schema, table (ROWFMT2 only), name, status, usertype,
\*                                      dt, maxlen, prec, scale, tablename, locale]
FmtTrailer(c) ==
    CASE c.dt \in DOMAIN Fixed -> <<>>
      [] c.dt \in Len1 -> U8(c.maxlen)
      [] c.dt \in Len1PS -> U8(c.maxlen) \o U8(c.prec) \o U8(c.scale)
      [] c.dt \in Len1S -> U8(c.maxlen) \o U8(c.scale)
      [] c.dt \in Len4 -> U32(c.maxlen)
      [] c.dt \in Txt -> U32(c.maxlen) \o S16(c.tablename)
      [] OTHER -> <<>>
FmtCol(c, wide, row) ==
    (IF row /\ wide THEN S8(c.label) \o S8(c.catalogue) \o S8(c.schema) \o S8(c.table) ELSE <<>>)
    \o S8(c.name) \o (IF wide THEN U32(c.status) ELSE U8(c.status)) \o U32(c.usertype) \o U8(c.dt)
    \o FmtTrailer(c) \o S8(c.locale)
FmtBody(f, wide, row) == U16(Len(f.cols)) \o Cat([i \in 1..Len(f.cols) |-> FmtCol(f.cols[i], wide, row)])

\* one data field of PARAMS / ROW: d = [dt, colstatus (format status has bit 0x08), status, data, txtptr, ts]
DataField(d) ==
    (IF d.colstatus THEN U8(d.status) ELSE <<>>)
    \o CASE d.dt \in DOMAIN Fixed -> d.data                                       \* exactly the type's size
         [] d.dt \in Len1 \cup Len1PS \cup Len1S -> S8(d.data)                    \* length 0 <=> NULL
         [] d.dt \in Len4 -> S32(d.data)
         [] d.dt \in Txt -> S8(d.txtptr) \o d.ts \o S32(d.data)
         [] OTHER -> <<>>

\* capability value mask: capability n = bit (n mod 8) of byte (len - 1 - n div 8)
MaskByte(caps, len, i) ==    \* i = 1..len, byte i holds capabilities 8*(len-i) .. 8*(len-i)+7
    LET base == 8 * (len - i) IN
    (IF base \in caps THEN 1 ELSE 0) + (IF base + 1 \in caps THEN 2 ELSE 0) + (IF base + 2 \in caps THEN 4 ELSE 0)
    + (IF base + 3 \in caps THEN 8 ELSE 0) + (IF base + 4 \in caps THEN 16 ELSE 0) + (IF base + 5 \in caps THEN 32 ELSE 0)
    + (IF base + 6 \in caps THEN 64 ELSE 0) + (IF base + 7 \in caps THEN 128 ELSE 0)
Mask(caps, len) == [i \in 1..len |-> MaskByte(caps, len, i)]

Body(kind, f) ==
  CASE kind = "EED" -> Len16(U32(f.msgno) \o U8(f.state) \o U8(f.class) \o S8(f.sqlstate) \o U8(f.status) \o U16(f.transtate)
                             \o S16(f.msg) \o S8(f.server) \o S8(f.proc) \o U16(f.line))
    [] kind = "ERROR" -> Len16(U32(f.errno) \o U8(f.state) \o U8(f.class) \o S16(f.msg) \o S8(f.server) \o S8(f.proc) \o U16(f.line))
    [] kind = "LOGINACK" -> Len16(U8(f.status) \o f.tdsversion \o S8(f.progname) \o f.progversion)
    [] kind \in {"DONE", "DONEPROC", "DONEINPROC"} -> U16(f.status) \o U16(f.transtate) \o U32(f.count)
    [] kind = "MSG" -> U8(3) \o U8(f.status) \o U16(f.msgid)
    [] kind = "RETURNSTATUS" -> U32(f.value)
    [] kind = "LOGOUT" -> U8(f.options)
    [] kind = "LANGUAGE" -> Len32(U8(f.status) \o f.cmd)
    [] kind = "ENVCHANGE" -> Len16(Cat([i \in 1..Len(f.members) |-> U8(f.members[i].typ) \o S8(f.members[i].new) \o S8(f.members[i].old)]))
    [] kind = "CAPABILITY" -> Len16(Cat([i \in 1..Len(f.masks) |-> U8(f.masks[i].typ) \o S8(Mask(ToSet(f.masks[i].caps), f.masks[i].len))]))
    [] kind = "ORDERBY" -> U16(Len(f.cols)) \o Cat([i \in 1..Len(f.cols) |-> U8(f.cols[i])])
    [] kind = "ORDERBY2" -> Len32(U16(Len(f.cols)) \o Cat([i \in 1..Len(f.cols) |-> U16(f.cols[i])]))
    [] kind = "DYNAMIC" -> Len16(U8(f.type) \o U8(f.status) \o S8(f.id)
                                 \o (IF Bit(f.type, 1) \/ Bit(f.type, 8) THEN S16(f.stmt) ELSE <<>>))
    [] kind = "DYNAMIC2" -> Len32(U8(f.type) \o U8(f.status) \o S8(f.id)
                                  \o (IF Bit(f.type, 1) \/ Bit(f.type, 8) THEN S32(f.stmt) ELSE <<>>))
    [] kind = "CURDECLARE" -> Len16(S8(f.name) \o U8(f.options) \o U8(f.status) \o S16(f.stmt) \o U16(0))
    [] kind = "CURDECLARE3" -> Len32(S8(f.name) \o U32(f.options) \o U8(f.status) \o S32(f.stmt) \o U16(0))
    [] kind = "CURINFO" -> Len16(CurRef(f) \o U8(f.command) \o U16(f.status)
                                 \o (IF Bit(f.status, 32) THEN U32(f.rowcount) ELSE <<>>))
    [] kind = "CURINFO3" -> Len16(CurRef(f) \o U8(f.command) \o U32(f.status) \o U32(f.rownum) \o U32(f.totalrows)
                                  \o (IF Bit(f.status, 32) THEN U32(f.rowcount) ELSE <<>>))
    [] kind = "CUROPEN" -> Len16(CurRef(f) \o U8(f.status))
    [] kind = "CURFETCH" -> Len16(CurRef(f) \o U8(f.type) \o (IF f.type \in {5, 6} THEN U32(f.rownum) ELSE <<>>))
    [] kind = "CURUPDATE" -> Len16(CurRef(f) \o U8(f.status) \o S8(f.table) \o S16(f.stmt))
    [] kind = "CURDELETE" -> Len16(CurRef(f) \o U8(f.status) \o S8(f.table))
    [] kind = "PARAMFMT" -> Len16(FmtBody(f, FALSE, FALSE))
    [] kind = "PARAMFMT2" -> Len32(FmtBody(f, TRUE, FALSE))
    [] kind = "ROWFMT" -> Len16(FmtBody(f, FALSE, TRUE))
    [] kind = "ROWFMT2" -> Len32(FmtBody(f, TRUE, TRUE))
    [] kind \in {"PARAMS", "ROW"} -> Cat([i \in 1..Len(f.fields) |-> DataField(f.fields[i])])
    [] OTHER -> <<>>
Enc(kind, f) == <<Tok[kind]>> \o Body(kind, f)

\* ---- the fixed-layout login record (sent without a token); every text slot is value, zero padding, length byte
Slot(s, n) == s \o [i \in 1..(n - Len(s)) |-> 0] \o U8(Len(s))
LoginRecord(f) ==
    Slot(f.hostname, 30) \o Slot(f.username, 30) \o Slot(f.password, 30) \o Slot(f.hostproc, 30)
    \o <<3, 1, 6, 10, 9, 1, 1, 0, 0>> \o <<0, 0, 0, 0>> \o <<0, 0, 0>>
    \o Slot(f.appname, 30) \o Slot(f.servname, 30) \o Slot(<<>>, 255) \o <<5, 0, 0, 0>>
    \o Slot(f.progname, 10) \o f.progversion \o <<0, 13, 17>> \o Slot(f.language, 30) \o <<1>> \o <<0, 0>>
    \o <<f.seclogin>> \o <<1, 1>> \o <<0, 0, 0, 0, 0, 0>> \o <<0, 0>> \o Slot(f.charset, 30) \o <<1>>
    \o Slot(<<53, 49, 50>>, 6) \o <<0, 0, 0, 0>>
=============================================================================
