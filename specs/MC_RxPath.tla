------------------------------ MODULE MC_RxPath ------------------------------
EXTENDS RxPath
Kinds == {"row", "doneF", "doneM", "info", "eed", "env"}
Pk(maxn) == [k : Kinds, n : 1..maxn]
AllShapes(maxp, maxn) == UNION { [1..m -> Pk(maxn)] : m \in 1..maxp }
\* judged domain (DESIGN.md C03, unspecified region): at least one package reaches the consumer,
\* and a final DONE occurs only as the last package of a response
Judged(r) == /\ \E i \in 1..Len(r) : r[i].k \notin {"info", "env"}
             /\ \A i \in 1..Len(r) - 1 : r[i].k # "doneF"
Shapes3 == { r \in AllShapes(3, 3) : Judged(r) }
Shapes2 == { r \in AllShapes(3, 2) : Judged(r) }
\* every response shape in which a final DONE occurs only as the last package: also the ones that deliver
\* nothing (only informational messages / environment changes) and the empty response
NoMidFinal(r) == \A i \in 1..Len(r) - 1 : r[i].k # "doneF"
ShapesQ2 == { r \in AllShapes(3, 2) : NoMidFinal(r) } \cup {<<>>}
ShapesQ3 == { r \in AllShapes(3, 3) : NoMidFinal(r) } \cup {<<>>}
\* without the domain restriction TLC finds the stale-lastRx history (a response delivering nothing)
\* malformed input: one "bad" package in front of ordinary ones
ShapesBad == { r \in UNION { [1..m -> [k : {"row", "bad", "doneF"}, n : 1..2]] : m \in 2..3 } : r[1].k = "bad" }
ShapesAll == AllShapes(2, 2)
=============================================================================
