--------------------------------- MODULE Dsn ---------------------------------
(* Design model for C17, simple key=value form (dsn/parse.go ParseSimple, dsn/format.go            *)
(* FormatSimple).  Texts are sequences of one-character strings.  An *item* is                       *)
(* [k |-> key, v |-> value, q |-> quote] with q \in {"", "'", "\""}; Compose writes items the way the  *)
(* documentation says (key=value, values with spaces in quotes, items separated by one space);        *)
(* Tokenize is the code-shaped algorithm (split at spaces, re-join quoted values).                     *)
(* FIXED = FALSE is the pinned algorithm, which indexes out of range ("panic") on an unterminated      *)
(* quote and on a quoted value that is a single space or starts with a space.                          *)
EXTENDS Integers, Sequences, SequencesExt, TLC
CONSTANTS FIXED, KeyChars, ValChars, MaxItems, MaxVal
DQ == "\""
SQ == "'"
SP == " "
EQ == "="

RECURSIVE SplitSp(_, _)
SplitSp(t, cur) == IF t = <<>> THEN <<cur>>
                   ELSE IF Head(t) = SP THEN <<cur>> \o SplitSp(Tail(t), <<>>)
                   ELSE SplitSp(Tail(t), Append(cur, Head(t)))
\* index (1-based) of the first occurrence of the two characters a,b in s, 0 if none
RECURSIVE Find2(_, _, _, _)
Find2(s, a, b, i) == IF i + 1 > Len(s) THEN 0 ELSE IF s[i] = a /\ s[i + 1] = b THEN i ELSE Find2(s, a, b, i + 1)
RECURSIVE Find1(_, _, _)
Find1(s, a, i) == IF i > Len(s) THEN 0 ELSE IF s[i] = a THEN i ELSE Find1(s, a, i + 1)

\* join parts until the quoted value is closed: returns [st, part, rest]
RECURSIVE JoinQuoted(_, _, _, _)
JoinQuoted(part, rest, quot, idx) ==
    IF FIXED
    THEN IF Len(part) >= idx + 2 /\ part[Len(part)] = quot THEN [st |-> "ok", part |-> part, rest |-> rest]
         ELSE IF rest = <<>> THEN [st |-> "err", part |-> part, rest |-> rest]
         ELSE JoinQuoted(part \o <<SP>> \o Head(rest), Tail(rest), quot, idx)
    ELSE IF part[Len(part)] = quot THEN [st |-> "ok", part |-> part, rest |-> rest]
         ELSE IF rest = <<>> THEN [st |-> "panic", part |-> part, rest |-> rest]      \* dsnS[0] on an empty slice
         ELSE JoinQuoted(part \o <<SP>> \o Head(rest), Tail(rest), quot, idx)

Unquote(v) ==
    IF v = <<>> THEN [st |-> "ok", v |-> v]
    ELSE IF v[1] \in {SQ, DQ} /\ v[Len(v)] = v[1]
         THEN IF Len(v) >= 2 THEN [st |-> "ok", v |-> SubSeq(v, 2, Len(v) - 1)]
              ELSE IF FIXED THEN [st |-> "ok", v |-> v] ELSE [st |-> "panic", v |-> v]     \* value[1:0]
         ELSE [st |-> "ok", v |-> v]

\* the token stream: sequence of [k, v] or a status "err"/"panic"
RECURSIVE Tok(_, _)
Tok(parts, acc) ==
    IF parts = <<>> THEN [st |-> "ok", items |-> acc]
    ELSE LET p0 == Head(parts)
             iq == IF Find2(p0, EQ, SQ, 1) > 0 THEN SQ ELSE IF Find2(p0, EQ, DQ, 1) > 0 THEN DQ ELSE ""
             j == IF iq = "" THEN [st |-> "ok", part |-> p0, rest |-> Tail(parts)]
                  ELSE JoinQuoted(p0, Tail(parts), iq, Find2(p0, EQ, iq, 1))
         IN IF j.st # "ok" THEN [st |-> j.st, items |-> acc]
            ELSE LET e == Find1(j.part, EQ, 1) IN
                 IF e = 0 THEN [st |-> "err", items |-> acc]
                 ELSE LET u == Unquote(SubSeq(j.part, e + 1, Len(j.part))) IN
                      IF u.st # "ok" THEN [st |-> u.st, items |-> acc]
                      ELSE Tok(j.rest, Append(acc, [k |-> SubSeq(j.part, 1, e - 1), v |-> u.v]))
Tokenize(t) == Tok(SplitSp(t, <<>>), <<>>)

\* the documented way to write items
ComposeItem(it) == it.k \o <<EQ>> \o (IF it.q = "" THEN it.v ELSE <<it.q>> \o it.v \o <<it.q>>)
RECURSIVE Compose(_)
Compose(items) == IF items = <<>> THEN <<>>
                  ELSE IF Len(items) = 1 THEN ComposeItem(items[1])
                  ELSE ComposeItem(items[1]) \o <<SP>> \o Compose(Tail(items))

Strings(alpha, n) == UNION { [1..k -> alpha] : k \in 0..n }
Keys == { k \in Strings(KeyChars, 1) : k # <<>> }
\* documented alphabet: unquoted values have no space; quoted values may have spaces anywhere
Items == { it \in [k : Keys, v : Strings(ValChars, MaxVal), q : {"", SQ, DQ}] :
             (it.q = "" => (\A i \in 1..Len(it.v) : it.v[i] # SP)) }
VARIABLES items
Init == items \in UNION { [1..n -> Items] : n \in 1..MaxItems }
Next == UNCHANGED items
Spec == Init /\ [][Next]_items
R == Tokenize(Compose(items))
C17_Total == R.st # "panic"
C17_TokensRoundTrip == R.st = "ok" /\ R.items = [i \in 1..Len(items) |-> [k |-> items[i].k, v |-> items[i].v]]
=============================================================================
