SPECIFICATION Spec
CONSTANTS
  K = 1
  NPKG = 2
  PEERANSWERS = TRUE
  CLOSESIGNAL = TRUE
  Closers = {"X", "Y"}
  RECHECK = TRUE
  SENDER = FALSE
  RELOCK = FALSE
  GEN = FALSE
INVARIANTS C13_NoCrash C13_OneTeardown C13_NoDeliveryAfterClose C13_ClosedReported
PROPERTIES C13_CloseReturns C13_RecvReturnsAfterCancel
CHECK_DEADLOCK FALSE
