------------------------------ MODULE Capability ------------------------------
(* Design model for C19: Target.SetCapabilities (capability/target.go) evaluated step by step.    *)
(* Versions are grid positions 1..G; a bound is 0 (missing), a position, or -1 (a string the       *)
(* comparer cannot parse); the version asked for is a position or -1.                               *)
EXTENDS Integers, Sequences, FiniteSets, TLC
CONSTANTS G, MaxRanges, NCaps
Bounds == (0..G) \cup {-1}
Range == [lo : Bounds, hi : Bounds]
RangeLists == UNION { [1..n -> Range] : n \in 0..MaxRanges }
CapLists == [1..NCaps -> RangeLists]

VARIABLES caps, v, ci, ri, has, st        \* st: "run", "done", "error"
vars == <<caps, v, ci, ri, has, st>>

Init == /\ caps \in CapLists /\ v \in (1..G) \cup {-1}
        /\ ci = 1 /\ ri = 1 /\ has = [c \in 1..NCaps |-> FALSE] /\ st = "run"

Unparsable(r) == r.lo = -1 \/ r.hi = -1
Inverted(r) == r.lo > 0 /\ r.hi > 0 /\ r.lo >= r.hi
HasBound(r) == r.lo # 0 \/ r.hi # 0
\* a range whose evaluation must end in an error (for this version)
Bad(r) == Unparsable(r) \/ Inverted(r) \/ (v = -1 /\ HasBound(r))
In(r) == HasBound(r) /\ (r.lo = 0 \/ r.lo <= v) /\ (r.hi = 0 \/ v < r.hi)

\* one iteration of the inner loop of SetCapabilities
EvalRange ==
    /\ st = "run" /\ ci <= NCaps /\ ri <= Len(caps[ci])
    /\ LET r == caps[ci][ri] IN
       IF Bad(r) THEN st' = "error" /\ UNCHANGED <<ci, ri, has>>
       ELSE IF In(r) THEN /\ has' = [has EXCEPT ![ci] = TRUE]          \* contains: set and break
                          /\ ci' = ci + 1 /\ ri' = 1 /\ UNCHANGED st
       ELSE has' = [has EXCEPT ![ci] = FALSE] /\ ri' = ri + 1 /\ UNCHANGED <<ci, st>>
    /\ UNCHANGED <<caps, v>>
NextCap == /\ st = "run" /\ ci <= NCaps /\ ri > Len(caps[ci])
           /\ ci' = ci + 1 /\ ri' = 1 /\ UNCHANGED <<caps, v, has, st>>
Finish == st = "run" /\ ci > NCaps /\ st' = "done" /\ UNCHANGED <<caps, v, ci, ri, has>>
Next == EvalRange \/ NextCap \/ Finish
Spec == Init /\ [][Next]_vars

\* ---- the C19 oracle (interval membership), three-valued
MustError == \E c \in 1..NCaps : \E i \in 1..Len(caps[c]) :
                 Bad(caps[c][i]) /\ \A j \in 1..(i - 1) : ~In(caps[c][j])
MayError == \E c \in 1..NCaps : \E i \in 1..Len(caps[c]) : Bad(caps[c][i])
Member(c) == \E i \in 1..Len(caps[c]) : ~Bad(caps[c][i]) /\ In(caps[c][i])
C19_InvalidIsError == (st \in {"done", "error"} /\ MustError) => st = "error"
C19_NoSilentError == st = "error" => MayError
C19_HasIffInSomeRange == st = "done" => \A c \in 1..NCaps : has[c] = Member(c)
C19_NoRangeNeverReported == \A c \in 1..NCaps : Len(caps[c]) = 0 => ~has[c]
=============================================================================
