INIT Init
NEXT Next
CONSTANT YEARS <- AllYears
