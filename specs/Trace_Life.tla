------------------------------- MODULE Trace_Life -------------------------------
(* Trace validation for C13 (contract level): which outcomes a call on a channel may have, given   *)
(* only what an observer knows - what the peer has sent, which contexts were cancelled, whether      *)
(* Close was called / has returned.  Calls that have not returned when the watchdog expires are      *)
(* reported as Hung; a Hung needs a reason the statement accepts (nothing to return and nothing       *)
(* cancelled), or one of the acknowledged known findings (KF_* actions, narrowly guarded).            *)
EXTENDS TraceBase
CONSTANT Acknowledged
VARIABLES l, K, sent, calls, cancelled, closeStarted, closeDone, connClosed, closeHung, chan, got, stolen
vars == <<l, K, sent, calls, cancelled, closeStarted, closeDone, connClosed, closeHung, chan, got, stolen>>
E == Trace[l]
IsEvent(e) == l <= Len(Trace) /\ Trace[l].ev = e /\ l' = l + 1
Init == /\ l = 1 /\ K = 0 /\ sent = 0 /\ calls = << >> /\ cancelled = {"cancelled"} /\ closeStarted = FALSE
        /\ closeDone = FALSE /\ connClosed = FALSE /\ closeHung = FALSE /\ chan = 0 /\ got = {} /\ stolen = FALSE /\ HWInit
T_Reset == /\ IsEvent("Reset") /\ K' = 0 /\ sent' = 0 /\ calls' = << >> /\ cancelled' = {"cancelled"}
           /\ closeStarted' = FALSE /\ closeDone' = FALSE /\ connClosed' = FALSE /\ closeHung' = FALSE /\ chan' = 0 /\ got' = {} /\ stolen' = FALSE
T_Setup == IsEvent("Setup") /\ K' = E.k /\ chan' = E.chan /\ UNCHANGED <<sent, calls, cancelled, closeStarted, closeDone, connClosed, closeHung, got, stolen>>
T_PeerSend == IsEvent("PeerSend") /\ sent' = sent + E.n
              /\ UNCHANGED <<K, calls, cancelled, closeStarted, closeDone, connClosed, closeHung, chan, got, stolen>>
\* packets for a channel that does not exist only produce connection errors (which these scenarios leave unconsumed)
T_Stray == IsEvent("Stray") /\ UNCHANGED <<K, sent, calls, cancelled, closeStarted, closeDone, connClosed, closeHung, got, stolen, chan>>
\* from now on the transport refuses every write (the teardown packet of a Close cannot be sent)
T_WriteFails == IsEvent("WriteFails") /\ UNCHANGED <<K, sent, calls, cancelled, closeStarted, closeDone, connClosed, closeHung, got, stolen, chan>>
T_Cancel == IsEvent("Cancel") /\ cancelled' = cancelled \cup {E.ctx}
            /\ UNCHANGED <<K, sent, calls, closeStarted, closeDone, connClosed, closeHung, chan, got, stolen>>

IsRecv(c) == c = "next"
BlockedRecvs == {i \in DOMAIN calls : /\ calls[i].st = "pending" /\ calls[i].call \in {"next", "until"} /\ calls[i].wait
                                      /\ ~(calls[i].ctx \in cancelled \/ "conn" \in cancelled)}
recvd == Cardinality(got)
LogoutRunning == \E i \in DOMAIN calls : calls[i].call = "connclose" \/ (calls[i].call = "close" /\ chan = 0)
\* nothing left that a receiver could get (the logout of a Close on channel 0 receives one package itself)
UntilUsed == \E i \in DOMAIN calls : calls[i].call = "until"
NothingQueued == recvd = sent \/ (LogoutRunning /\ recvd + 1 = sent) \/ UntilUsed
T_CallStart ==
    /\ IsEvent("CallStart") /\ E.id \notin DOMAIN calls
    /\ calls' = calls @@ (E.id :> [call |-> E.call, ctx |-> E.ctx, wait |-> E.wait, st |-> "pending",
                                   afterClose |-> closeDone, afterConnClose |-> connClosed,
                                   \* receivers that were blocked on an empty queue when this call started
                                   blockers |-> IF NothingQueued THEN BlockedRecvs ELSE {}])
    /\ closeStarted' = (closeStarted \/ E.call \in {"close", "connclose"})
    /\ UNCHANGED <<K, sent, cancelled, closeDone, connClosed, closeHung, chan, got, stolen>>

CtxGone(c) == c.ctx \in cancelled \/ "conn" \in cancelled
NPendingRecv == Cardinality({i \in DOMAIN calls : calls[i].st = "pending" /\ calls[i].call \in {"next", "until"}})
Done(id) == calls' = [calls EXCEPT ![id].st = "done"]

T_CallEnd ==
    /\ IsEvent("CallEnd") /\ E.id \in DOMAIN calls /\ calls[E.id].st = "pending"
    /\ LET c == calls[E.id] IN
       CASE IsRecv(c.call) ->
              /\ CASE E.outcome = "pkg" ->
                        /\ ~c.afterClose                              \* nothing is delivered from a closed channel
                        \* an already queued package, in order; the logout of a Close on channel 0
                        \* receives one package itself, which the observer then never sees
                        \* (concurrent receivers may report out of order: the bound is the number of them)
                        /\ E.val \notin got /\ E.val >= 1 /\ E.val <= sent
                        /\ (UntilUsed \/ E.val <= Cardinality(got) + NPendingRecv + (IF LogoutRunning THEN 1 ELSE 0))
                        /\ got' = got \cup {E.val}
                        /\ stolen' = (stolen \/ LogoutRunning)     \* it may have been the answer to a logout
                   [] E.outcome = "ctxerr" -> CtxGone(c) /\ UNCHANGED <<got, stolen>>       \* wraps the context's error
                   [] E.outcome = "closed" -> closeStarted /\ UNCHANGED <<got, stolen>>    \* reports the closed condition
                   [] E.outcome = "noready" -> ~c.wait /\ UNCHANGED <<got, stolen>>
                   [] E.outcome = "err" -> (connClosed \/ closeStarted) /\ UNCHANGED <<got, stolen>>
                   [] OTHER -> FALSE
              /\ (c.afterClose => E.outcome = "closed")               \* after Close every call reports it
              /\ UNCHANGED <<closeDone, connClosed>>
         [] c.call = "until" ->
              \* NextPackageUntil: how many packages it consumed is not observable (it drains the response
              \* after a callback error); judged: the outcome class and - through Hung - that it returns
              /\ CASE E.outcome = "pkg" -> ~c.afterClose
                   [] E.outcome = "cberr" -> TRUE
                   [] E.outcome = "ctxerr" -> CtxGone(c)
                   [] E.outcome = "closed" -> closeStarted
                   [] E.outcome = "err" -> (connClosed \/ closeStarted)
                   [] OTHER -> FALSE
              /\ (c.afterClose => E.outcome = "closed")
              /\ UNCHANGED <<closeDone, connClosed, got, stolen>>
         [] c.call = "send" ->
              /\ E.outcome \in {"ok", "ctxerr", "closed", "err"}
              /\ (c.ctx = "cancelled" => E.outcome # "ok" /\ E.wrote = 0)   \* a cancelled send writes nothing
              /\ (c.afterClose => E.outcome = "closed")
              /\ (E.outcome = "closed" => closeStarted) /\ (E.outcome = "ctxerr" => CtxGone(c) \/ c.ctx = "cancelled")
              /\ UNCHANGED <<closeDone, connClosed, got, stolen>>
         [] c.call = "close" ->
              /\ E.outcome \in {"ok", "err", "closed"}
              /\ (E.outcome = "closed" => c.afterClose \/ closeStarted)
              /\ (c.afterClose => E.outcome = "closed")              \* a Close on a closed channel says so, like every other call
              /\ closeDone' = TRUE /\ UNCHANGED <<connClosed, got, stolen>>
         [] c.call = "connclose" ->
              /\ E.outcome \in {"ok", "err"}
              /\ E.transportClosed                                    \* ... closes the transport
              /\ E.readerEnded                                        \* ... and ends the reader
              /\ closeDone' = TRUE /\ connClosed' = TRUE /\ UNCHANGED <<got, stolen>>
         [] OTHER -> FALSE
    /\ Done(E.id)
    /\ UNCHANGED <<K, sent, cancelled, closeStarted, closeHung, chan>>

PendingRecvLive == \E i \in DOMAIN calls : /\ calls[i].st = "pending" /\ calls[i].call \in {"next", "until"} /\ calls[i].wait
                                           /\ ~CtxGone(calls[i])
\* ---- calls that did not return within the watchdog
\* a receive may keep waiting only while there is nothing to return and nothing was cancelled or closed
T_HungRecv ==
    /\ IsEvent("Hung") /\ E.id \in DOMAIN calls /\ IsRecv(calls[E.id].call)
    /\ LET c == calls[E.id] IN
       \/ (c.wait /\ ~CtxGone(c) /\ NothingQueued /\ ~closeDone /\ ~c.afterClose)
       \/ closeHung                     \* consequence of an acknowledged hung Close (waiting writer blocks new readers)
    /\ Done(E.id) /\ UNCHANGED <<K, sent, cancelled, closeStarted, closeDone, connClosed, closeHung, chan, got, stolen>>
\* NextPackageUntil may keep waiting only while its context is live and the channel is open
T_HungUntil ==
    /\ IsEvent("Hung") /\ E.id \in DOMAIN calls /\ calls[E.id].call = "until"
    /\ \/ (~CtxGone(calls[E.id]) /\ ~closeDone /\ ~calls[E.id].afterClose)
       \/ closeHung
    /\ Done(E.id) /\ UNCHANGED <<K, sent, cancelled, closeStarted, closeDone, connClosed, closeHung, chan, got, stolen>>
T_HungOther ==
    /\ IsEvent("Hung") /\ E.id \in DOMAIN calls /\ calls[E.id].call = "send" /\ closeHung
    /\ Done(E.id) /\ UNCHANGED <<K, sent, cancelled, closeStarted, closeDone, connClosed, closeHung, chan, got, stolen>>
\* Known finding: Close never returns while the reader goroutine is parked on a full package queue
\* (it holds the read lock across the blocking send; Close needs the write lock).
KF_CloseBehindParkedReader ==
    /\ "C13-close-behind-parked-reader" \in Acknowledged
    /\ IsEvent("Hung") /\ E.id \in DOMAIN calls /\ calls[E.id].call \in {"close", "connclose"}
    \* more packages sent than the queue holds and nobody receives them (the logout of a Close on channel 0
    \* receives one itself - unless the connection's context was cancelled before, then it fails at once)
    /\ sent - recvd - (IF LogoutRunning /\ "conn" \notin cancelled THEN 1 ELSE 0) >= K + 1
    /\ KFUsed("C13-close-behind-parked-reader", l)
    /\ closeHung' = TRUE /\ Done(E.id) /\ UNCHANGED <<K, sent, cancelled, closeStarted, closeDone, connClosed, chan, got, stolen>>
\* Known finding: Close does not return while another goroutine is blocked in NextPackage with a live
\* context (it holds the read lock across its select).
KF_CloseBehindBlockedReceiver ==
    /\ "C13-close-behind-blocked-receiver" \in Acknowledged
    /\ IsEvent("Hung") /\ E.id \in DOMAIN calls /\ calls[E.id].call \in {"close", "connclose"}
    /\ \/ \E i \in calls[E.id].blockers : calls[i].st = "pending" /\ ~CtxGone(calls[i])   \* that receiver is still blocked
       \* or the blocked receiver is the logout wait of another, concurrent Close on channel 0
       \/ (LogoutRunning /\ Cardinality({i \in DOMAIN calls : calls[i].st = "pending" /\ calls[i].call \in {"close", "connclose"}}) >= 2)
       \/ closeHung            \* or another Close already hangs for an acknowledged reason (this one queues behind it)
       \/ PendingRecvLive      \* or one is blocked now (packages sent after Close began to wait cannot reach it:
                               \* the waiting writer also keeps the reader goroutine from taking the read lock)
    /\ KFUsed("C13-close-behind-blocked-receiver", l)
    /\ closeHung' = TRUE /\ Done(E.id) /\ UNCHANGED <<K, sent, cancelled, closeStarted, closeDone, connClosed, chan, got, stolen>>
\* A Close that runs the logout sequence waits for the server's answer for up to one minute (the
\* library's logout context).  When every package the peer sent was received by somebody else, that
\* wait is still running when the watchdog expires: bounded, but not observed to its end.
T_HungLogoutWait ==
    /\ IsEvent("Hung") /\ E.id \in DOMAIN calls /\ calls[E.id].call \in {"close", "connclose"}
    /\ LogoutRunning /\ (recvd = sent \/ stolen)     \* stolen: a receiver got a package while the logout was waiting for its answer
    /\ E.waited < 61000                             \* ... which it does for a minute at most: Close returns in bounded time
    /\ closeHung' = TRUE /\ Done(E.id) /\ UNCHANGED <<K, sent, cancelled, closeStarted, closeDone, connClosed, chan, got, stolen>>
T_End == IsEvent("End") /\ (\A i \in DOMAIN calls : calls[i].st = "done")
         /\ UNCHANGED <<K, sent, calls, cancelled, closeStarted, closeDone, connClosed, closeHung, chan, got, stolen>>
Next == T_Reset \/ T_Setup \/ T_PeerSend \/ T_Stray \/ T_Cancel \/ T_CallStart \/ T_CallEnd \/ T_HungRecv \/ T_HungUntil \/ T_HungOther
        \/ T_HungLogoutWait \/ T_WriteFails \/ KF_CloseBehindParkedReader \/ KF_CloseBehindBlockedReceiver \/ T_End
Spec == Init /\ [][Next]_vars
HW == HWOf(l)
=============================================================================
