----------------------------- MODULE MuxIdsProof -----------------------------
(* The id allocation of Conn.NewChannel (repaired: the id is reserved with one atomic fetch-and-add, *)
(* then looked up and registered) for any number of concurrent creators, proved with TLAPS:           *)
(* no two creators ever own the same id, and never id 0 (C12_DistinctIds of Mux.tla, unbounded).       *)
EXTENDS Integers, TLAPS
CONSTANT Creators
VARIABLES counter, chans, pc, cid
vars == <<counter, chans, pc, cid>>
Init == /\ counter = 1 /\ chans = {0} /\ pc = [c \in Creators |-> "start"] /\ cid = [c \in Creators |-> 0]
Reserve(c) == /\ pc[c] = "start" /\ cid' = [cid EXCEPT ![c] = counter] /\ counter' = counter + 1
              /\ pc' = [pc EXCEPT ![c] = "lookup"] /\ UNCHANGED chans
Lookup(c) == /\ pc[c] = "lookup" /\ pc' = [pc EXCEPT ![c] = IF cid[c] \in chans THEN "start" ELSE "register"]
             /\ UNCHANGED <<counter, chans, cid>>
Register(c) == /\ pc[c] = "register" /\ chans' = chans \cup {cid[c]} /\ pc' = [pc EXCEPT ![c] = "owner"]
               /\ UNCHANGED <<counter, cid>>
\* Channel.Close by the owner: the id leaves the map and is never handed out again
CloseChan(c) == /\ pc[c] = "owner" /\ chans' = chans \ {cid[c]} /\ pc' = [pc EXCEPT ![c] = "closed"]
                /\ UNCHANGED <<counter, cid>>
Next == \E c \in Creators : Reserve(c) \/ Lookup(c) \/ Register(c) \/ CloseChan(c)
Spec == Init /\ [][Next]_vars
Past == {"lookup", "register", "owner", "closed"}
TypeOK == /\ counter \in Nat /\ counter >= 1 /\ chans \subseteq Nat
          /\ pc \in [Creators -> {"start"} \cup Past] /\ cid \in [Creators -> Nat]
Distinct == \A c \in Creators : \A d \in Creators :
               (c # d /\ pc[c] \in Past /\ pc[d] \in Past) => cid[c] # cid[d]
IndInv == /\ TypeOK
          /\ Distinct
          /\ \A c \in Creators : pc[c] \in Past => (cid[c] >= 1 /\ cid[c] < counter)
          /\ \A i \in chans : i < counter
C12_DistinctIds == \A c \in Creators : \A d \in Creators :
                      (c # d /\ pc[c] = "owner" /\ pc[d] = "owner") => (cid[c] # cid[d] /\ cid[c] # 0)

THEOREM Safety == Spec => []C12_DistinctIds
<1>1. Init => IndInv
  BY DEF Init, IndInv, TypeOK, Distinct, Past
<1>2. IndInv /\ [Next]_vars => IndInv'
  <2> SUFFICES ASSUME IndInv, [Next]_vars PROVE IndInv'
    OBVIOUS
  <2>1. ASSUME NEW c \in Creators, Reserve(c) PROVE IndInv'
    BY <2>1 DEF Reserve, IndInv, TypeOK, Distinct, Past
  <2>2. ASSUME NEW c \in Creators, Lookup(c) PROVE IndInv'
    BY <2>2 DEF Lookup, IndInv, TypeOK, Distinct, Past
  <2>3. ASSUME NEW c \in Creators, Register(c) PROVE IndInv'
    BY <2>3 DEF Register, IndInv, TypeOK, Distinct, Past
  <2>4. ASSUME NEW c \in Creators, CloseChan(c) PROVE IndInv'
    BY <2>4 DEF CloseChan, IndInv, TypeOK, Distinct, Past
  <2>5. ASSUME UNCHANGED vars PROVE IndInv'
    BY <2>5 DEF vars, IndInv, TypeOK, Distinct, Past
  <2> QED BY <2>1, <2>2, <2>3, <2>4, <2>5 DEF Next
<1>3. IndInv => C12_DistinctIds
  BY DEF IndInv, Distinct, C12_DistinctIds, Past
<1> QED BY <1>1, <1>2, <1>3, PTL DEF Spec
=============================================================================
