SPECIFICATION Spec
CONSTANTS MaxLen = 4
 GEN = FALSE
INVARIANTS C03_ConsumesExactlyOne C03_DrainOnCallbackError C11_ErrorCarriesMessages C03_StopLeavesRest
CHECK_DEADLOCK FALSE
