----------------------------- MODULE Trace_Decimal -----------------------------
(* Trace validation for C16: each event is one call into asetypes.Decimal; TLC evaluates the        *)
(* DecimalText specification on it.                                                                  *)
EXTENDS TraceBase, DecimalText
VARIABLES l
vars == <<l>>
E == Trace[l]
IsEvent(e) == l <= Len(Trace) /\ Trace[l].ev = e /\ l' = l + 1
Init == l = 1 /\ HWInit
T_Reset == IsEvent("Reset")
\* String() of a decimal with unscaled integer E.ds (<= p digits), then parsed back
T_Fmt == /\ IsEvent("Fmt") /\ ~E.panic
         /\ E.text = Fmt(E.p, E.s, E.neg, E.ds)                       \* the exact expansion, canonical shape
         /\ E.backok /\ E.backds = E.ds /\ (E.ds # <<>> => E.backneg = E.neg)    \* parse(format(x)) = x
         /\ E.cmp                                                     \* ... an equal decimal (Cmp)
T_Parse == /\ IsEvent("Parse") /\ ~E.panic
           /\ E.kept                            \* an input that is rejected does not change the value the decimal holds
           /\ ParseOK(E.text, E.p, E.s, E.ok, E.neg, E.ds)
\* construction with a (precision, scale) pair
T_New == /\ IsEvent("New")
         /\ (E.s < 0 \/ E.s > E.p \/ E.p > 38 \/ E.p < 0) => ~E.ok          \* invalid combinations are rejected
         /\ (E.p >= 1 /\ E.p <= 38 /\ E.s >= 0 /\ E.s <= E.p) => E.ok      \* valid ones are not
Next == T_Reset \/ T_Fmt \/ T_Parse \/ T_New
Spec == Init /\ [][Next]_vars
HW == HWOf(l)
=============================================================================
