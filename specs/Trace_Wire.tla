------------------------------- MODULE Trace_Wire -------------------------------
(* Trace validation for C06, C07, C10: every event is one package (or batch of hostile inputs)     *)
(* handled by the real library; TLC evaluates the wire specification (Wire.tla) on it.                *)
(*  Pkg      kind, f (field values), w / wbytes (the library's writer), h / hbytes (the harness's      *)
(*           encoding, for packages only a server sends), r / rf / consumed (the library's reader on   *)
(*           those bytes behind the token)                                                              *)
(*  Data     a PARAMS / ROW package behind its format: framing of the data fields                        *)
(*  LoginRecord   the fixed-layout login record                                                          *)
(*  Prefix   C07: outcomes of parsing every proper prefix                                                *)
(*  Mut      C10: a batch of hostile inputs with outcome counts                                          *)
EXTENDS TraceBase, Wire
CONSTANT Acknowledged
VARIABLES l
vars == <<l>>
Judge == IF "JUDGE" \in DOMAIN IOEnv THEN IOEnv.JUDGE ELSE "ALL"
J06 == Judge \in {"C06", "ALL"}
J07 == Judge \in {"C07", "ALL"}
J10 == Judge \in {"C10", "ALL"}
E == Trace[l]
IsEvent(e) == l <= Len(Trace) /\ Trace[l].ev = e /\ l' = l + 1
Init == l = 1 /\ HWInit
T_Reset == IsEvent("Reset")

PkgOK ==
    LET exp == Enc(E.kind, E.f) IN
    /\ (E.w # "none" => E.w = "ok" /\ E.wbytes = exp)                \* what is written is the layout: every length/count truthful
    /\ (E.h => E.hbytes = exp)                                         \* (the harness's own encoder agrees with the specification)
    /\ (E.r # "none" => /\ E.r = "ok" /\ E.rf = E.f                    \* reading it back reproduces the fields
                        /\ E.consumed = Len(exp) - 1)                  \* and consumes exactly the bytes written
T_Pkg == /\ IsEvent("Pkg")
         /\ J06 => PkgOK
\* data fields: status byte iff column status, NULL <=> zero length, everything consumed
T_Data == /\ IsEvent("Data")
          /\ J06 => /\ E.r = "ok" /\ E.consumed = E.n
                    /\ E.statuses = E.wantstatus
                    /\ Len(E.nulls) = Len(E.wantnull)
                    /\ \A i \in 1..Len(E.nulls) : (E.wantnull[i] => E.nulls[i])      \* zero length reads as NULL
                    /\ \A i \in 1..Len(E.nulls) : (E.dts[i] \in Len1 \cup Len4 /\ ~E.wantnull[i]) => ~E.nulls[i]
\* the login record: exact layout; an oversized field is rejected, not truncated or shifted
T_LoginRecord == /\ IsEvent("LoginRecord")
                 /\ J06 => IF E.oversized THEN E.st = "err" /\ E.wrote = 0
                           ELSE E.st = "ok" /\ E.rec = LoginRecord(E.f)
T_Prefix == /\ IsEvent("Prefix")
            /\ J07 => /\ E.need = E.n /\ E.ok = 0 /\ E.err = 0 /\ E.panic = 0       \* every proper prefix: not enough bytes
                      /\ E.full = "ok"                                               \* and the complete parse is unaffected
\* a package behind an unknown token has no end of its own: however much of it has arrived, parsing reports
\* not-enough-bytes - never success, never another error
T_PrefixTL == /\ IsEvent("PrefixTL")
              /\ J07 => /\ E.need = E.n /\ E.ok = 0 /\ E.err = 0 /\ E.panic = 0
T_Mut == /\ IsEvent("Mut")
         /\ J10 => /\ E.panic = 0                                                   \* no input crashes a parser
                   /\ E.hang = 0                                                    \* every parser / the packet reader returns
                   /\ E.ok + E.need + E.err = E.n
                   /\ E.disprop = 0                                                 \* allocation proportional to what was received
                   /\ (E.declared > 0 => /\ "C10-alloc-declared-length" \in Acknowledged
                                         /\ KFUsed("C10-alloc-declared-length", l))
T_CapErr == IsEvent("CapErr") /\ ~J06
Next == T_Reset \/ T_Pkg \/ T_Data \/ T_LoginRecord \/ T_Prefix \/ T_PrefixTL \/ T_Mut \/ T_CapErr
Spec == Init /\ [][Next]_vars
HW == HWOf(l)
=============================================================================
