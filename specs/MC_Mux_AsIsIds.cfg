SPECIFICATION Spec
CONSTANTS
  Creators = {"g1", "g2"}
  MaxPkgs = 3
  ATOMIC = FALSE
  PTRACK = TRUE
INVARIANTS C12_DistinctIds C12_SetupSucceedsOnAck C12_RoutedToHeaderChannel C12_InOrder C12_NoCrossTalk C12_NoReuseAfterClose
CHECK_DEADLOCK FALSE
