SPECIFICATION Spec
CONSTANTS
  Bodies = {2, 3}
  MaxBytes = 7
  MaxSteps = 6
  MaxRead = 4
  GEN = FALSE
INVARIANTS C15_Refines C15_ReadReturnsFlat C15_DiscardKeepsUnread C15_Layout C15_AllConsumedMeansEnd
VIEW View
CHECK_DEADLOCK FALSE
