------------------------------ MODULE DataTypes ------------------------------
(* The TDS 5.0 data type layouts as a specification (C04, C05): for every data type with a Go mapping   *)
(* the relation Rel(t, v, b) between a value v in canonical form and its wire bytes b.  It is written   *)
(* independently of the library: own civil-date arithmetic (day counting from the month lengths and the *)
(* leap rule, not the Julian-day formulas of asetime), own two's complement / multi-byte arithmetic on   *)
(* little-endian byte sequences (TLC's integers are 32 bit, microsecond counts and 64-bit integers are   *)
(* not), own UTF-16.  Values reach the specification in forms produced with the standard library only:  *)
(*   int   : sign and decimal digits (strconv / math/big)           [k |-> "int", neg, dig, gt]          *)
(*   hex   : IEEE-754 bit pattern as hex nibbles, most significant first (math.Float64bits, %x)          *)
(*   bit   : 0 / 1                                                                                       *)
(*   dec   : sign, decimal digits of the unscaled value, precision, scale (Decimal.Int, math/big)        *)
(*   tm    : civil fields y mo d h mi s ns of a time.Time in UTC                                         *)
(*   bytes : the bytes of a []byte or string;  cps : the code points of a string ([]rune)                *)
(*   null  : nil                                                                                          *)
(* Exact types have a functional Rel.  The classic temporal types hold 1/300 s ticks (1 min for          *)
(* SHORTDATE): a value between two ticks may go to either neighbour (a carry into the next day           *)
(* included); a value on a tick has one encoding.                                                        *)
EXTENDS Integers, Sequences, SequencesExt, FiniteSets

---------------------------------------------------------------------------------
(* naturals as little-endian byte sequences *)
RECURSIVE MulAddLE(_, _, _)
\* b * m + a   (m < 8000000; a and the carries stay below 2^31)
MulAddLE(b, m, a) ==
  IF b = <<>> THEN (IF a = 0 THEN <<>> ELSE <<a % 256>> \o MulAddLE(<<>>, m, a \div 256))
  ELSE LET x == Head(b) * m + a IN <<x % 256>> \o MulAddLE(Tail(b), m, x \div 256)
RECURSIVE DigitsToLE(_, _)
DigitsToLE(dig, acc) == IF dig = <<>> THEN acc ELSE DigitsToLE(Tail(dig), MulAddLE(acc, 10, Head(dig)))
NatLE(dig) == DigitsToLE(dig, <<>>)
IntLE(n) == MulAddLE(<<>>, 1, n)                                   \* 0 <= n < 2^31
IsZero(b) == \A i \in 1..Len(b) : b[i] = 0
Fits(b, n) == \A i \in (n + 1)..Len(b) : b[i] = 0
Pad(b, n) == [i \in 1..n |-> IF i <= Len(b) THEN b[i] ELSE 0]
RECURSIVE Inc(_)
Inc(b) == IF b = <<>> THEN <<>> ELSE IF Head(b) = 255 THEN <<0>> \o Inc(Tail(b)) ELSE <<Head(b) + 1>> \o Tail(b)
\* two's complement representation in n bytes of the integer with this sign and magnitude
Twos(neg, mag, n) == IF neg /\ ~IsZero(mag) THEN Inc([i \in 1..n |-> 255 - Pad(mag, n)[i]]) ELSE Pad(mag, n)
\* the value lies in the type's domain
InSigned(neg, mag, n) == /\ Fits(mag, n)
                         /\ LET p == Pad(mag, n) IN
                            \/ p[n] < 128
                            \/ neg /\ p[n] = 128 /\ \A i \in 1..(n - 1) : p[i] = 0
InUnsigned(neg, mag, n) == (~neg \/ IsZero(mag)) /\ Fits(mag, n)
RECURSIVE StripLead(_)
StripLead(b) == IF b # <<>> /\ Head(b) = 0 THEN StripLead(Tail(b)) ELSE b        \* big-endian
Canon(dig) == StripLead(dig)                                                    \* digits without leading zeros

---------------------------------------------------------------------------------
(* the proleptic Gregorian calendar, years 0..9999 *)
IsLeap(y) == (y % 4 = 0 /\ y % 100 # 0) \/ y % 400 = 0
MonthLen(y, m) == IF m = 2 THEN (IF IsLeap(y) THEN 29 ELSE 28) ELSE IF m \in {4, 6, 9, 11} THEN 30 ELSE 31
ValidDate(y, m, d) == y \in 0..9999 /\ m \in 1..12 /\ d \in 1..MonthLen(y, m)
Cum == <<0, 31, 59, 90, 120, 151, 181, 212, 243, 273, 304, 334>>
\* days from 0001-01-01 (day 0) to the first day of year y >= 1; year 0 (a leap year) lies 366 days before
DaysBeforeYear(y) == IF y = 0 THEN 0 - 366
                     ELSE 365 * (y - 1) + (y - 1) \div 4 - (y - 1) \div 100 + (y - 1) \div 400
DayNo(y, m, d) == DaysBeforeYear(y) + Cum[m] + (IF m > 2 /\ IsLeap(y) THEN 1 ELSE 0) + d - 1
\* the day after
Succ(y, m, d) == IF d < MonthLen(y, m) THEN <<y, m, d + 1>> ELSE IF m < 12 THEN <<y, m + 1, 1>> ELSE <<y + 1, 1, 1>>
\* the inverse by 400/100/4/1-year cycles
CivilOf(n) ==
  LET n400 == n \div 146097      r0 == n % 146097
      c    == r0 \div 36524      n100 == IF c > 3 THEN 3 ELSE c       r1 == r0 - n100 * 36524
      n4   == r1 \div 1461       r2 == r1 % 1461
      a    == r2 \div 365        n1 == IF a > 3 THEN 3 ELSE a         r3 == r2 - n1 * 365
      y    == 400 * n400 + 100 * n100 + 4 * n4 + n1 + 1
      lp   == IF IsLeap(y) THEN 1 ELSE 0
      cum(m) == Cum[m] + (IF m > 2 THEN lp ELSE 0)
      mo   == CHOOSE m \in 1..12 : cum(m) <= r3 /\ (m = 12 \/ cum(m + 1) > r3)
  IN <<y, mo, r3 - cum(mo) + 1>>
Epoch1900 == DayNo(1900, 1, 1)
Days1900(v) == DayNo(v.y, v.mo, v.d) - Epoch1900              \* DATE, DATETIME, SHORTDATE
Days0000(v) == DayNo(v.y, v.mo, v.d) + 366                    \* BIGDATETIME: since 0000-01-01
Sod(v) == v.h * 3600 + v.mi * 60 + v.s
Us(v) == v.ns \div 1000
ValidTm(v) == ValidDate(v.y, v.mo, v.d) /\ v.h \in 0..23 /\ v.mi \in 0..59 /\ v.s \in 0..59 /\ v.ns \in 0..999999999
TickFloor(v) == Sod(v) * 300 + (Us(v) * 3) \div 10000
TickExact(v) == (Us(v) * 3) % 10000 = 0 /\ v.ns % 1000 = 0
TickCeil(v) == IF TickExact(v) THEN TickFloor(v) ELSE TickFloor(v) + 1
TicksPerDay == 25920000
MinFloor(v) == v.h * 60 + v.mi
MinExact(v) == v.s = 0 /\ v.ns = 0
MinCeil(v) == IF MinExact(v) THEN MinFloor(v) ELSE MinFloor(v) + 1
\* signed 32-bit little endian
LE4S(n) == Twos(n < 0, IntLE(IF n < 0 THEN 0 - n ELSE n), 4)
LE4(n) == Pad(IntLE(n), 4)
LE2(n) == Pad(IntLE(n), 2)
\* microseconds as 8 bytes: (days * 86400 + sod) * 10^6 + us
Micros(days, sod, us) == Pad(MulAddLE(MulAddLE(IntLE(days), 86400, sod), 1000000, us), 8)

---------------------------------------------------------------------------------
(* UTF-16LE *)
Scalar(c) == c \in 0..1114111 /\ c \notin 55296..57343
U16(c) == IF c < 65536 THEN <<c % 256, c \div 256>>
          ELSE LET xx == c - 65536
                   hs == 55296 + (xx \div 1024)
                   ls == 56320 + (xx % 1024)
               IN <<hs % 256, hs \div 256, ls % 256, ls \div 256>>
RECURSIVE Utf16LE(_)
Utf16LE(cps) == IF cps = <<>> THEN <<>> ELSE U16(Head(cps)) \o Utf16LE(Tail(cps))

---------------------------------------------------------------------------------
(* the data types: fixed size (or -1), bytes of the length prefix (or -1), class *)
TypeTable == [
  BIT |-> [size |-> 1, lb |-> -1, cl |-> "bit"],
  INT1 |-> [size |-> 1, lb |-> -1, cl |-> "uint"],      \* tinyint is unsigned
  INT2 |-> [size |-> 2, lb |-> -1, cl |-> "int"],
  INT4 |-> [size |-> 4, lb |-> -1, cl |-> "int"],
  INT8 |-> [size |-> 8, lb |-> -1, cl |-> "int"],
  UINT2 |-> [size |-> 2, lb |-> -1, cl |-> "uint"],
  UINT4 |-> [size |-> 4, lb |-> -1, cl |-> "uint"],
  UINT8 |-> [size |-> 8, lb |-> -1, cl |-> "uint"],
  INTN |-> [size |-> -1, lb |-> 1, cl |-> "intn"],
  UINTN |-> [size |-> -1, lb |-> 1, cl |-> "uint"],
  FLT4 |-> [size |-> 4, lb |-> -1, cl |-> "flt"],
  FLT8 |-> [size |-> 8, lb |-> -1, cl |-> "flt"],
  FLTN |-> [size |-> -1, lb |-> 1, cl |-> "flt"],
  MONEY |-> [size |-> 8, lb |-> -1, cl |-> "money"],
  SHORTMONEY |-> [size |-> 4, lb |-> -1, cl |-> "money"],
  MONEYN |-> [size |-> -1, lb |-> 1, cl |-> "money"],
  DECN |-> [size |-> -1, lb |-> 1, cl |-> "dec"],
  NUMN |-> [size |-> -1, lb |-> 1, cl |-> "dec"],
  DATE |-> [size |-> 4, lb |-> -1, cl |-> "date"],
  DATEN |-> [size |-> -1, lb |-> 1, cl |-> "date"],
  TIME |-> [size |-> 4, lb |-> -1, cl |-> "time"],
  TIMEN |-> [size |-> -1, lb |-> 1, cl |-> "time"],
  SHORTDATE |-> [size |-> 4, lb |-> -1, cl |-> "sdt"],
  DATETIME |-> [size |-> 8, lb |-> -1, cl |-> "dt"],
  DATETIMEN |-> [size |-> -1, lb |-> 1, cl |-> "dtn"],
  BIGDATETIMEN |-> [size |-> -1, lb |-> 1, cl |-> "bigdt"],
  BIGTIMEN |-> [size |-> -1, lb |-> 1, cl |-> "bigtime"],
  BINARY |-> [size |-> -1, lb |-> 1, cl |-> "raw"],
  VARBINARY |-> [size |-> -1, lb |-> 1, cl |-> "raw"],
  LONGBINARY |-> [size |-> -1, lb |-> 4, cl |-> "raw"],
  IMAGE |-> [size |-> -1, lb |-> 4, cl |-> "raw"],
  XML |-> [size |-> -1, lb |-> 4, cl |-> "raw"],
  CHAR |-> [size |-> -1, lb |-> 1, cl |-> "raw"],
  VARCHAR |-> [size |-> -1, lb |-> 1, cl |-> "raw"],
  LONGCHAR |-> [size |-> -1, lb |-> 4, cl |-> "raw"],
  TEXT |-> [size |-> -1, lb |-> 4, cl |-> "raw"],
  UNITEXT |-> [size |-> -1, lb |-> 4, cl |-> "uni"] ]
Types == DOMAIN TypeTable
Nullable(t) == TypeTable[t].size = -1
\* the nullable variant of a fixed-length type ("" : none), itself for a nullable type
NullableOf(t) == IF Nullable(t) THEN t
                 ELSE CASE t \in {"INT1", "INT2", "INT4", "INT8"} -> "INTN"
                        [] t \in {"UINT2", "UINT4", "UINT8"} -> "UINTN"
                        [] t \in {"FLT4", "FLT8"} -> "FLTN"
                        [] t \in {"MONEY", "SHORTMONEY"} -> "MONEYN"
                        [] t = "DATE" -> "DATEN"
                        [] t = "TIME" -> "TIMEN"
                        [] t \in {"DATETIME", "SHORTDATE"} -> "DATETIMEN"
                        [] OTHER -> ""

\* hex nibbles (most significant first) as little-endian bytes
HexLE(nib) == LET n == Len(nib) \div 2 IN [i \in 1..n |-> nib[2 * (n - i) + 1] * 16 + nib[2 * (n - i) + 2]]

\* temporal encodings of a value between ticks: the neighbours, with the carry into the next day
DtPairs(v) == LET D == Days1900(v) IN
              {<<D, TickFloor(v)>>} \cup (IF TickCeil(v) < TicksPerDay THEN {<<D, TickCeil(v)>>} ELSE {<<D + 1, 0>>})
SdtPairs(v) == LET D == Days1900(v) IN
               {<<D, MinFloor(v)>>} \cup (IF MinCeil(v) < 1440 THEN {<<D, MinCeil(v)>>} ELSE {<<D + 1, 0>>})

\* Rel(t, v, b): b is a wire encoding of v as data type t
Rel(t, v, b) ==
  LET cl == TypeTable[t].cl  n == Len(b) IN
  IF v.k = "null" THEN Nullable(t) /\ b = <<>>
  ELSE /\ n > 0
       /\ (TypeTable[t].size # -1 => n = TypeTable[t].size)
       /\ CASE cl = "bit"  -> v.k = "bit" /\ b = <<v.x>>
            [] cl = "int"  -> v.k = "int" /\ InSigned(v.neg, NatLE(v.dig), n) /\ b = Twos(v.neg, NatLE(v.dig), n)
            [] cl = "uint" -> v.k = "int" /\ n \in {1, 2, 4, 8} /\ InUnsigned(v.neg, NatLE(v.dig), n) /\ b = Pad(NatLE(v.dig), n)
            \* INTN: 1 byte is the unsigned tinyint, 2/4/8 are signed
            [] cl = "intn" -> v.k = "int" /\ n \in {1, 2, 4, 8}
                              /\ IF n = 1 THEN InUnsigned(v.neg, NatLE(v.dig), 1) /\ b = Pad(NatLE(v.dig), 1)
                                 ELSE InSigned(v.neg, NatLE(v.dig), n) /\ b = Twos(v.neg, NatLE(v.dig), n)
            [] cl = "flt"  -> v.k = "hex" /\ n \in {4, 8} /\ Len(v.nib) = 2 * n /\ b = HexLE(v.nib)
            \* money: a 1/10000 count; 8 bytes: high word, then low word; 4 bytes: one word
            [] cl = "money" -> /\ v.k = "dec" /\ n \in {4, 8} /\ InSigned(v.neg, NatLE(v.dig), n)
                               /\ LET T == Twos(v.neg, NatLE(v.dig), n) IN
                                  b = IF n = 4 THEN T ELSE SubSeq(T, 5, 8) \o SubSeq(T, 1, 4)
            \* numeric: sign byte, big-endian magnitude (leading zero bytes do not matter)
            [] cl = "dec"  -> /\ v.k = "dec" /\ b[1] = (IF v.neg /\ ~IsZero(NatLE(v.dig)) THEN 1 ELSE 0)
                              /\ StripLead(Tail(b)) = StripLead(Reverse(NatLE(v.dig)))
            [] cl = "date" -> v.k = "tm" /\ n = 4 /\ ValidTm(v) /\ b = LE4S(Days1900(v))
            [] cl = "time" -> v.k = "tm" /\ n = 4 /\ ValidTm(v) /\ b \in {LE4(TickFloor(v)), LE4(TickCeil(v))}
            [] cl = "sdt"  -> v.k = "tm" /\ n = 4 /\ ValidTm(v)
                              /\ \E p \in SdtPairs(v) : p[1] \in 0..65535 /\ b = LE2(p[1]) \o LE2(p[2])
            [] cl = "dt"   -> v.k = "tm" /\ n = 8 /\ ValidTm(v)
                              /\ \E p \in DtPairs(v) : b = LE4S(p[1]) \o LE4(p[2])
            [] cl = "dtn"  -> v.k = "tm" /\ ValidTm(v)
                              /\ IF n = 4 THEN \E p \in SdtPairs(v) : p[1] \in 0..65535 /\ b = LE2(p[1]) \o LE2(p[2])
                                 ELSE n = 8 /\ \E p \in DtPairs(v) : b = LE4S(p[1]) \o LE4(p[2])
            [] cl = "bigdt" -> v.k = "tm" /\ n = 8 /\ ValidTm(v) /\ v.ns % 1000 = 0
                               /\ b = Micros(Days0000(v), Sod(v), Us(v))
            [] cl = "bigtime" -> v.k = "tm" /\ n = 8 /\ ValidTm(v) /\ v.ns % 1000 = 0
                                 /\ b = Micros(0, Sod(v), Us(v))
            [] cl = "raw"  -> v.k = "bytes" /\ b = v.x
            [] cl = "uni"  -> v.k = "cps" /\ (\A i \in 1..Len(v.x) : Scalar(v.x[i])) /\ b = Utf16LE(v.x)

\* Same(t, v, w): w is v as far as data type t can tell (what a round trip may return)
SameTod(v, w, tol, dd) ==
  LET ds == dd * 86400 + Sod(w) - Sod(v)
  IN /\ dd \in {0, 1} /\ ds \in (0 - 61)..61
     /\ LET du == ds * 1000000 + Us(w) - Us(v) IN du < tol /\ (0 - du) < tol
DayDiff(v, w) == DayNo(w.y, w.mo, w.d) - DayNo(v.y, v.mo, v.d)
Same(t, v, w) ==
  LET cl == TypeTable[t].cl IN
  IF v.k = "null" \/ w.k = "null" THEN v.k = w.k
  ELSE CASE cl \in {"int", "uint", "intn"} -> w.k = "int" /\ Canon(w.dig) = Canon(v.dig) /\ (w.neg = v.neg \/ IsZero(NatLE(v.dig))) /\ w.gt = v.gt
         [] cl = "flt" -> w.k = "hex" /\ w.nib = v.nib
         [] cl = "bit" -> w.k = "bit" /\ w.x = v.x
         [] cl \in {"money", "dec"} -> w.k = "dec" /\ Canon(w.dig) = Canon(v.dig) /\ (w.neg = v.neg \/ IsZero(NatLE(v.dig)))
         [] cl = "date" -> w.k = "tm" /\ <<w.y, w.mo, w.d>> = <<v.y, v.mo, v.d>>
         \* a tick is 3333.3 microseconds, a minute 60 seconds; the time of day only for TIME
         [] cl = "time" -> w.k = "tm" /\ SameTod(v, w, 3334, 0)      \* a time of day has no next day to be carried into
         [] cl = "dt" -> w.k = "tm" /\ SameTod(v, w, 3334, DayDiff(v, w))
         [] cl = "sdt" -> w.k = "tm" /\ SameTod(v, w, 60000000, DayDiff(v, w))
         [] cl = "dtn" -> w.k = "tm" /\ SameTod(v, w, 60000000, DayDiff(v, w))        \* refined by the length in the trace spec
         [] cl = "bigdt" -> w.k = "tm" /\ <<w.y, w.mo, w.d, w.h, w.mi, w.s, w.ns>> = <<v.y, v.mo, v.d, v.h, v.mi, v.s, v.ns>>
         [] cl = "bigtime" -> w.k = "tm" /\ <<w.h, w.mi, w.s, w.ns>> = <<v.h, v.mi, v.s, v.ns>>
         [] cl = "raw" -> w.k = "bytes" /\ w.x = v.x /\ w.gt = v.gt
         [] cl = "uni" -> w.k = "cps" /\ w.x = v.x
=============================================================================
