SPECIFICATION Spec
CONSTANTS
  Bodies = {2, 3}
  MaxBytes = 7
  MaxSteps = 4
  MaxRead = 3
  GEN = TRUE
CONSTRAINT GenPrint
CHECK_DEADLOCK FALSE
