#!/usr/bin/env python3
"""Shared machinery for the go-dblib verification checks.

Everything here is plumbing: run TLC (exhaustive, simulation, trace validation), build and run
the Go drivers against the repository's working tree, shard traces, turn TLC's verdicts into the
exit-code / VIOLATION / KNOWN-FINDING interface, and write evidence files.  Verdicts themselves
are produced by TLC evaluating the TLA+ specifications under /verif/specs.
"""
import hashlib
import json
import os
import re
import shutil
import subprocess
import sys
import tempfile
import time
from concurrent.futures import ThreadPoolExecutor

VERIF = os.path.dirname(os.path.dirname(os.path.abspath(__file__)))
SPECS = os.path.join(VERIF, "specs")
HARNESS = os.path.join(VERIF, "harness")
TLA_CP = "/opt/veriftools/tla/tla2tools.jar:/opt/veriftools/tla/CommunityModules-deps.jar"
NCPU = os.cpu_count() or 4


import threading
_BUILD_LOCK = threading.Lock()


class Infra(Exception):
    """Infrastructure failure: exit 2, never a violation."""


def log(*a):
    print(*a, flush=True)


class Ctx:
    def __init__(self, prop, tier="quick", seed=1, replay=None):
        self.prop = prop
        self.tier = tier
        self.seed = seed
        self.replay = replay
        self.repo = os.environ.get("VERIF_REPO", "/repo")
        self.t0 = time.time()
        base = os.environ.get("VERIF_SCRATCH") or tempfile.gettempdir()
        self.scratch = tempfile.mkdtemp(prefix="verif-%s-" % prop, dir=base)
        self.violations = []        # list of (replay_path, text)
        self.kf_used = {}           # name -> count
        self.notes = []
        self.mc = []                # list of dicts from tlc_mc
        self.traces_ok = 0
        self.trace_events = 0
        self.trace_states = 0
        self.samples = []
        self.extra = {}
        self.assumptions = []
        self.checker_cmds = []
        self.known = load_known()

    # ------------------------------------------------------------------ known findings
    def acknowledged(self):
        return sorted(k["name"] for k in self.known if k.get("status") == "known"
                      and k.get("property") == self.prop)

    def kf_desc(self, name):
        for k in self.known:
            if k.get("name") == name:
                return k.get("what", name)
        return name

    # ------------------------------------------------------------------ cleanup / finish
    def cleanup(self):
        shutil.rmtree(self.scratch, ignore_errors=True)

    def sub(self, name):
        p = os.path.join(self.scratch, name)
        os.makedirs(p, exist_ok=True)
        return p

    # ------------------------------------------------------------------ TLC
    def _spec_copy(self, modules_dir):
        """TLC litters the directory of the spec; work on a scratch copy."""
        dst = os.path.join(self.scratch, "specs")
        if not os.path.isdir(dst):
            shutil.copytree(SPECS, dst)
        return dst

    def tlc_raw(self, family, module, cfg, workers=4, env=None, args=(), timeout=900, heap="3g",
                tag=None, stack=None):
        d = self._spec_copy(os.path.join(SPECS, family))
        tag = tag or (module + "-" + os.path.splitext(os.path.basename(cfg))[0])
        md = os.path.join(self.scratch, "md-%s-%d" % (tag, len(os.listdir(self.scratch))))
        tmpd = md + "-tmp"
        os.makedirs(md, exist_ok=True)
        os.makedirs(tmpd, exist_ok=True)
        cmd = ["java", "-XX:+UseParallelGC", "-Xmx" + heap, "-Djava.io.tmpdir=" + tmpd]
        if stack:
            cmd.append("-Xss" + stack)
        cmd += ["-cp", TLA_CP, "tlc2.TLC", "-workers", str(workers), "-metadir", md,
                "-config", cfg] + list(args) + [module]
        e = dict(os.environ)
        e.pop("JAVA_TOOL_OPTIONS", None)
        if env:
            e.update(env)
        t = time.time()
        try:
            p = subprocess.run(cmd, cwd=d, env=e, stdout=subprocess.PIPE, stderr=subprocess.STDOUT,
                               timeout=timeout, text=True, errors="replace")
        except subprocess.TimeoutExpired as ex:
            shutil.rmtree(md, ignore_errors=True)
            shutil.rmtree(tmpd, ignore_errors=True)
            raise Infra("TLC timeout after %ds: %s" % (timeout, " ".join(cmd[-6:])))
        shutil.rmtree(md, ignore_errors=True)
        shutil.rmtree(tmpd, ignore_errors=True)
        out = p.stdout
        res = {"rc": p.returncode, "out": out, "wall": time.time() - t,
               "cmd": "tlc -workers %d -config %s %s %s" % (workers, cfg, " ".join(args), module)}
        m = re.search(r"(\d+) states generated, (\d+) distinct states found", out)
        if m:
            res["generated"] = int(m.group(1))
            res["distinct"] = int(m.group(2))
        m = re.search(r"depth of the complete state graph search is (\d+)", out)
        if m:
            res["depth"] = int(m.group(1))
        return res

    def tlc_mc(self, family, module, cfg, workers=8, expect_ok=True, timeout=1200, heap="6g", args=(),
               env=None, stack=None):
        """Exhaustive design check (U1). A failing design check is an infrastructure error, not a
        violation of the code: verdicts on the code come only from real traces (R6)."""
        r = self.tlc_raw(family, module, cfg, workers=workers, timeout=timeout, heap=heap, args=args,
                         env=env, stack=stack)
        ok = ("Model checking completed. No error has been found" in r["out"])
        r["ok"] = ok
        self.checker_cmds.append(r["cmd"])
        if expect_ok and not ok:
            sys.stdout.write(r["out"][-4000:])
            raise Infra("design model %s/%s (%s) did not pass TLC" % (family, module, cfg))
        self.mc.append({"module": module, "cfg": cfg, "generated": r.get("generated", 0),
                        "distinct": r.get("distinct", 0), "depth": r.get("depth", 0),
                        "wall_s": round(r["wall"], 1), "ok": ok})
        log("  [U1] %s %s: %s generated, %s distinct, depth %s, %.1fs %s" % (
            module, cfg, r.get("generated"), r.get("distinct"), r.get("depth"), r["wall"],
            "ok" if ok else "COUNTEREXAMPLE"))
        return r

    def tlc_expect_violation(self, family, module, cfg, what, workers=4, timeout=600, args=()):
        """Anti-vacuity: a deliberately broken / as-is design config must be refuted by TLC."""
        r = self.tlc_raw(family, module, cfg, workers=workers, timeout=timeout, args=args)
        bad = bool(re.search(r"(is|was|were) violated", r["out"])) or ("Deadlock reached" in r["out"])
        if not bad:
            sys.stdout.write(r["out"][-3000:])
            raise Infra("anti-vacuity config %s/%s (%s) was expected to be refuted (%s)" % (
                family, module, cfg, what))
        log("  [U1-neg] %s %s refuted as expected (%s), %.1fs" % (module, cfg, what, r["wall"]))
        self.extra.setdefault("negative_configs_refuted", []).append({"cfg": cfg, "what": what})
        return r

    def apalache_inductive(self, module, cinit, init, indinv, timeout=600):
        """Inductive invariant with Apalache: Init => IndInv (length 0), IndInv /\\ Next => IndInv' (length 1).
        An extra on top of TLC; failure to prove is an infrastructure error, never a verdict on the code."""
        d = self._spec_copy(SPECS)
        outd = os.path.join(self.scratch, "apalache-out")
        res = []
        for (i, n) in ((init, 0), (indinv, 1)):
            cmd = ["apalache-mc", "check", "--out-dir=" + outd, "--cinit=" + cinit, "--init=" + i, "--inv=" + indinv,
                   "--length=%d" % n, module + ".tla"]
            t = time.time()
            try:
                p = subprocess.run(cmd, cwd=d, stdout=subprocess.PIPE, stderr=subprocess.STDOUT, timeout=timeout, text=True)
            except subprocess.TimeoutExpired:
                raise Infra("apalache timeout on %s" % module)
            ok = "The outcome is: NoError" in p.stdout
            res.append(ok)
            log("  [apalache] %s --init=%s --inv=%s --length=%d: %s (%.1fs)" % (module, i, indinv, n, "NoError" if ok else "FAILED", time.time() - t))
            if not ok:
                sys.stdout.write(p.stdout[-3000:])
                raise Infra("apalache could not establish the inductive invariant of %s" % module)
        self.extra["apalache_inductive_invariant"] = {"module": module, "invariant": indinv, "initiation": res[0], "consecution": res[1]}
        self.checker_cmds.append("apalache-mc check --cinit=%s --init=%s|%s --inv=%s --length=0|1 %s.tla" % (cinit, init, indinv, indinv, module))

    def tlaps(self, module, timeout=600):
        """Proof of the design model's safety theorem with the TLA+ proof system (unbounded in the constants).
        An extra on top of TLC; a failing proof is an infrastructure error, never a verdict on the code."""
        d = self._spec_copy(SPECS)
        t = time.time()
        try:
            p = subprocess.run(["tlapm", "--threads", str(NCPU), "--cleanfp", module + ".tla"], cwd=d, stdout=subprocess.PIPE,
                               stderr=subprocess.STDOUT, timeout=timeout, text=True)
        except subprocess.TimeoutExpired:
            raise Infra("tlapm timeout on %s" % module)
        m = re.search(r"All (\d+) obligations? proved", p.stdout)
        if not m:
            sys.stdout.write(p.stdout[-3000:])
            raise Infra("tlapm did not prove %s" % module)
        n = int(m.group(1))
        log("  [tlaps] %s: all %d obligations proved (%.1fs)" % (module, n, time.time() - t))
        self.extra["tlaps_proof"] = {"module": module, "obligations": n, "discharged": n}
        self.checker_cmds.append("tlapm --threads %d %s.tla" % (NCPU, module))

    def tlc_generate(self, family, module, cfg, workers=4, args=(), timeout=600, env=None, heap="4g"):
        """Behaviour generation (U2): the Gen config prints JSON scenarios with
        PrintT(<<"SCN", ToJson(...)>>); returns the list of decoded objects."""
        r = self.tlc_raw(family, module, cfg, workers=workers, timeout=timeout, args=args, env=env,
                         heap=heap)
        scns = []
        for line in r["out"].splitlines():
            line = line.strip()
            if line.startswith('<<"SCN", "'):
                body = line[len('<<"SCN", "'):]
                if body.endswith('">>'):
                    body = body[:-3]
                body = body.replace('\\"', '"').replace("\\\\", "\\")
                try:
                    scns.append(json.loads(body))
                except Exception as ex:
                    raise Infra("cannot decode generated scenario: %r (%s)" % (line[:200], ex))
        if "Error:" in r["out"] and "SCN" not in r["out"]:
            sys.stdout.write(r["out"][-3000:])
            raise Infra("behaviour generation %s/%s failed" % (family, module))
        self.checker_cmds.append(r["cmd"])
        log("  [U2] %s %s: %d behaviours generated by TLC in %.1fs" % (module, cfg, len(scns), r["wall"]))
        r["scenarios"] = scns
        return r

    # ------------------------------------------------------------------ Go drivers
    def build_driver(self, race=False, tags="verif"):
        with _BUILD_LOCK:
            return self._build_driver(race, tags)

    def _build_driver(self, race=False, tags="verif"):
        name = "drv-race" if race else "drv"
        out = os.path.join(self.scratch, name)
        if os.path.exists(out):
            return out
        src = os.path.join(self.scratch, "harness-src")
        if not os.path.isdir(src):
            shutil.copytree(HARNESS, src, ignore=shutil.ignore_patterns("go.mod", "go.sum"))
            with open(os.path.join(src, "go.mod"), "w") as f:
                f.write("module verifharness\n\ngo 1.19\n\nrequire github.com/SAP/go-dblib v0.0.0\n\n"
                        "replace github.com/SAP/go-dblib => %s\n" % self.repo)
            shutil.copy(os.path.join(self.repo, "go.sum"), os.path.join(src, "go.sum"))
        e = go_env()
        cmd = ["go", "build", "-tags", tags, "-o", out]
        if race:
            cmd.append("-race")
        cmd.append("./cmd/drv")
        t = time.time()
        p = subprocess.run(cmd, cwd=src, env=e, stdout=subprocess.PIPE, stderr=subprocess.STDOUT, text=True)
        if p.returncode != 0:
            sys.stdout.write(p.stdout[-6000:])
            raise Infra("driver build failed (go build %s)" % ("-race" if race else ""))
        log("  [build] %s from %s in %.1fs" % (name, self.repo, time.time() - t))
        return out

    def run_driver(self, args, race=False, timeout=1800, env=None, allow_fail=False):
        exe = self.build_driver(race=race)
        e = dict(os.environ)
        if env:
            e.update(env)
        t = time.time()
        try:
            p = subprocess.run([exe] + [str(a) for a in args], cwd=self.scratch, env=e,
                               stdout=subprocess.PIPE, stderr=subprocess.STDOUT, timeout=timeout, text=True,
                               errors="replace")
        except subprocess.TimeoutExpired:
            raise Infra("driver timeout: %s" % " ".join(map(str, args)))
        if p.returncode != 0 and not allow_fail:
            self.check_library_panic(p.stdout, args)
        if p.returncode != 0 and not allow_fail:
            os.makedirs(os.path.join(VERIF, "replays"), exist_ok=True)
            with open(os.path.join(VERIF, "replays", "%s-driver-failure.txt" % self.prop), "w") as f:
                f.write(p.stdout[-200000:])
            sys.stdout.write(p.stdout[-6000:])
            raise Infra("driver failed rc=%d: %s" % (p.returncode, " ".join(map(str, args))))
        log("  [drv] %s (%.1fs)%s" % (" ".join(map(str, args))[:160], time.time() - t,
                                     "" if p.returncode == 0 else " rc=%d" % p.returncode))
        return p

    def check_library_panic(self, out, args=()):
        """The driver process died: if it died of a panic raised inside the library, in a goroutine of the
        library's own (the reader goroutine), that is real behaviour of the code under test - a crash, which
        no property allows; nothing the harness could recover and turn into an event.  Raises LibraryPanic."""
        if not library_panic(out):
            return
        os.makedirs(os.path.join(VERIF, "replays"), exist_ok=True)
        h = hashlib.sha1(out[-20000:].encode()).hexdigest()[:12]
        path = os.path.join(VERIF, "replays", "%s-libpanic-%s.txt" % (self.prop, h))
        with open(path, "w") as f:
            f.write("driver: %s\n\n" % " ".join(map(str, args)))
            f.write(out[-200000:])
        first = [l for l in out.splitlines() if l.startswith("panic:")]
        self.violations.append((path, "the library panicked in one of its own goroutines and took the process down: %s" % (first[0][:200] if first else "panic")))
        raise LibraryPanic(path)

    # ------------------------------------------------------------------ trace validation (U3)
    def validate(self, family, module, cfg, trace_file, shards=None, max_rejects=3, label="",
                 heap="2g", extra_env=None, timeout=1800, sample_n=2, stack=None):
        """Validate an NDJSON trace (scenarios separated by ev=Reset lines) against a trace spec.
        Returns (accepted_scenarios, rejected_scenarios)."""
        with open(trace_file) as f:
            lines = f.read().splitlines()
        lines = [x for x in lines if x.strip()]
        scen = []           # list of lists of lines
        for ln in lines:
            if '"ev":"Reset"' in ln or not scen:
                scen.append([])
            scen[-1].append(ln)
        if not scen:
            raise Infra("empty trace %s" % trace_file)
        n = len(scen)
        shards = shards or min(NCPU, max(1, len(lines) // 1500))
        shards = max(1, min(shards, n))
        buckets = [[] for _ in range(shards)]
        # balance by event count
        order = sorted(range(n), key=lambda i: -len(scen[i]))
        loads = [0] * shards
        for i in order:
            b = loads.index(min(loads))
            buckets[b].append(i)
            loads[b] += len(scen[i])
        for b in buckets:
            b.sort()
        ack = self.acknowledged()
        cfg_text = open(os.path.join(SPECS, cfg)).read()
        d = self._spec_copy(os.path.join(SPECS, family))
        if "@ACK@" in cfg_text:
            cfg_run = "run-" + cfg
            with open(os.path.join(d, cfg_run), "w") as f:
                f.write(cfg_text.replace("@ACK@", "{" + ", ".join('"%s"' % a for a in ack) + "}"))
        else:
            cfg_run = cfg
        rejected = []
        states_total = [0]

        def run_shard(si):
            idxs = list(buckets[si])
            rej = []
            rounds = 0
            while idxs:
                rounds += 1
                path = os.path.join(self.scratch, "shard-%s-%d-%d.ndjson" % (module, si, rounds))
                offs = []
                with open(path, "w") as f:
                    c = 0
                    for i in idxs:
                        offs.append((c + 1, c + len(scen[i]), i))
                        for ln in scen[i]:
                            f.write(ln + "\n")
                        c += len(scen[i])
                env = {"TRACE": path}
                if extra_env:
                    env.update(extra_env)
                r = self.tlc_raw(family, module, cfg_run, workers=1, env=env, timeout=timeout, heap=heap,
                                 tag="tv-%s-%d-%d" % (module, si, rounds), stack=stack)
                os.unlink(path)
                out = r["out"]
                states_total[0] += r.get("distinct", 0)
                for m in re.finditer(r'<<"KF_USED", "([^"]+)"', out):
                    self.kf_used[m.group(1)] = self.kf_used.get(m.group(1), 0) + 1
                if "No error has been found" in out and "REJECTED_AT_LINE" not in out:
                    break
                m = re.search(r'"REJECTED_AT_LINE", (\d+)', out)
                if not m:
                    k = out.find("Error:")
                    sys.stdout.write(out[max(0, k - 200):k + 3000] if k >= 0 else out[-5000:])
                    raise Infra("trace validation %s failed without a verdict" % module)
                ln_no = int(m.group(1))
                hit = None
                for (a, b, i) in offs:
                    if a <= ln_no <= b:
                        hit = (a, b, i)
                if hit is None:
                    raise Infra("rejected line %d outside trace" % ln_no)
                a, b, i = hit
                rej.append((i, ln_no - a))
                idxs.remove(i)
                if len(rej) >= max_rejects:
                    break
            return rej

        t = time.time()
        with ThreadPoolExecutor(max_workers=min(shards, NCPU)) as ex:
            for rej in ex.map(run_shard, range(shards)):
                rejected.extend(rej)
        self.checker_cmds.append("tlc -workers 1 -config %s %s  (TRACE=<ndjson shard>, %d shards)" % (cfg, module, shards))
        for (i, off) in rejected:
            self._report_violation(module, scen[i], off)
        acc = n - len(rejected)
        self.traces_ok += acc
        self.trace_events += len(lines)
        self.trace_states += states_total[0]
        for i in range(min(sample_n, n)):
            j = (i * 7919 + self.seed) % n
            self.samples.append({"source": label or module, "scenario_events": [json.loads(x) for x in scen[j][:12]],
                                 "truncated": len(scen[j]) > 12})
        log("  [U3] %s%s: %d scenarios / %d events validated by TLC in %d shards, %d rejected (%.1fs)" % (
            module, (" " + label) if label else "", n, len(lines), shards, len(rejected), time.time() - t))
        return acc, rejected

    def _report_violation(self, module, scen_lines, off):
        os.makedirs(os.path.join(VERIF, "replays"), exist_ok=True)
        h = hashlib.sha1("\n".join(scen_lines).encode()).hexdigest()[:12]
        path = os.path.join(VERIF, "replays", "%s-%s.ndjson" % (self.prop, h))
        with open(path, "w") as f:
            f.write("\n".join(scen_lines) + "\n")
        ev = scen_lines[off] if off < len(scen_lines) else "<end of scenario>"
        self.violations.append((path, "trace spec %s has no step for event #%d: %s" % (module, off + 1, ev[:300])))

    # ------------------------------------------------------------------ finish
    def finish(self, level=None, rule=None, exhaustive_note=None, coverage_extra=None):
        # the level a check claims is fixed when it starts (level_default), so that a run that ends early - a
        # library panic, say - writes an evidence record of the same level as a complete one
        level = level or getattr(self, "level_default", None) or "model_checking"
        wall = time.time() - self.t0
        states = sum(m["distinct"] for m in self.mc)
        trans = sum(m["generated"] for m in self.mc)
        cov = {
            "states": states,
            "transitions": trans,
            "traces_validated_against_impl": self.traces_ok,
            "samples": self.samples[:6] if self.samples else [{"note": "no trace sample recorded"}],
            "design_models": self.mc,
            "trace_events_validated": self.trace_events,
            "trace_states": self.trace_states,
            "checker_cmd": " ; ".join(self.checker_cmds[:8]),
            "known_findings_used": sorted(self.kf_used),
            "exhaustive": bool(self.mc) and all(m["ok"] for m in self.mc),
        }
        if level in ("exploration", "fault_enumeration"):
            cov["evaluations"] = self.extra.get("evaluations", self.trace_events)
            cov["distinct_nontrivial"] = self.extra.get("distinct_nontrivial", self.traces_ok)
            cov["rule"] = rule or ""
        if rule:
            cov["rule"] = rule
        if exhaustive_note:
            cov["exhaustive_scope"] = exhaustive_note
        cov.update(self.extra)
        if coverage_extra:
            cov.update(coverage_extra)
        ev = {
            "property_id": self.prop, "tier": self.tier, "seed": self.seed, "level": level,
            "coverage": cov, "assumptions": self.assumptions, "wall_s": round(wall, 1),
            "violations": len(self.violations),
        }
        os.makedirs(os.path.join(VERIF, "evidence"), exist_ok=True)
        with open(os.path.join(VERIF, "evidence", self.prop + ".json"), "w") as f:
            json.dump(ev, f, indent=1, sort_keys=True)
            f.write("\n")
        for name in sorted(self.kf_used):
            print("KNOWN-FINDING: property=%s %s [%s]" % (self.prop, self.kf_desc(name), name), flush=True)
        for (path, text) in self.violations:
            print("  violation detail: " + text, flush=True)
            print("VIOLATION property=%s replay=%s" % (self.prop, path), flush=True)
        log("%s %s tier=%s seed=%d: %d design states, %d traces validated, %d violations, %.1fs" % (
            "FAIL" if self.violations else "PASS", self.prop, self.tier, self.seed, states, self.traces_ok,
            len(self.violations), wall))
        return 1 if self.violations else 0


def go_env():
    e = dict(os.environ)
    e.update({"GOFLAGS": "-mod=mod", "GOPROXY": "off", "GOSUMDB": "off", "GOTOOLCHAIN": "local"})
    return e


def load_known():
    p = os.path.join(VERIF, "known_findings.json")
    if not os.path.exists(p):
        return []
    with open(p) as f:
        return json.load(f).get("findings", [])


class LibraryPanic(Exception):
    pass


def library_panic(out):
    """True if the output is a Go panic whose innermost non-runtime frame is library code, not harness code."""
    lines = out.splitlines()
    for i, l in enumerate(lines):
        if not l.startswith("panic:") and not l.startswith("fatal error:"):
            continue
        # frames of the first goroutine listed after the panic line (the panicking one)
        j = i + 1
        while j < len(lines) and not lines[j].startswith("goroutine "):
            j += 1
        for k in range(j + 1, min(j + 60, len(lines))):
            f = lines[k]
            if not f or f[0] in " \t":
                continue
            if f.startswith("goroutine "):
                break
            if f.startswith(("panic(", "runtime.", "runtime/", "sync.", "sync/", "internal/", "reflect.")):
                continue
            return f.startswith("github.com/SAP/go-dblib/")
        return False
    return False


def main(run_fn_by_prop):
    import argparse
    ap = argparse.ArgumentParser()
    ap.add_argument("prop")
    ap.add_argument("--tier", default=os.environ.get("VERIF_TIER", "quick"))
    ap.add_argument("--seed", type=int, default=int(os.environ.get("VERIF_SEED", "1") or 1))
    ap.add_argument("--replay", default=None)
    a = ap.parse_args()
    if a.prop not in run_fn_by_prop:
        print("unknown property %s" % a.prop)
        sys.exit(2)
    if a.tier not in ("quick", "thorough"):
        a.tier = "quick"
    ctx = Ctx(a.prop, a.tier, a.seed, a.replay)
    rc = 2
    try:
        rc = run_fn_by_prop[a.prop](ctx)
    except LibraryPanic:
        rc = ctx.finish()
    except Infra as ex:
        print("INFRASTRUCTURE ERROR (exit 2, not a verdict): %s" % ex, flush=True)
        rc = 2
    finally:
        ctx.cleanup()
    sys.exit(rc)
