#!/bin/sh
# usage: tools/regress_seeds.sh [parallel] : tries every kept seeded change (expects rc=1) and every benign
# refactoring (expects rc=0 for each property that must keep holding); results in /tmp/regress_seeds.log
PAR="${1:-3}"
cd /verif
: > /tmp/regress_seeds.log
for d in seeded/C*/; do
  # changes that a later repair of /repo neutralised are not expected to be reported any more
  if python3 -c "import json,sys;sys.exit(0 if 'obsolete' in json.load(open('$d/meta.json')) else 1)"; then continue; fi
  p=$(python3 -c "import json;print(json.load(open('$d/meta.json'))['property'])")
  echo "$d $p"
done | xargs -P "$PAR" -L 1 sh -c 'tools/try_seed_wt.sh $0 $1 >> /tmp/regress_seeds.log 2>&1'
for d in seeded/benign-*/; do
  for p in $(python3 -c "import json;print(' '.join(json.load(open('$d/meta.json'))['properties_that_must_keep_holding']))"); do
    tools/try_seed_wt.sh $d $p >> /tmp/regress_seeds.log 2>&1
  done
done
echo "missed seeds:"; grep "^seed=C" /tmp/regress_seeds.log | grep -v "rc=1 " 
echo "alarms on benign:"; grep "^seed=benign" /tmp/regress_seeds.log | grep -v "rc=0 "
