#!/bin/sh
# usage: tools/verify_seed.sh <seed dir> <package dir for the demo, e.g. tds>
# Confirms in a scratch worktree: the change compiles, the existing suite passes with it, the demo fails with it
# and passes without it.
D="$1"; PKG="$2"
export GOFLAGS=-mod=mod GOPROXY=off GOSUMDB=off GOTOOLCHAIN=local
WT=/tmp/wt-verify-$$
git -C /repo worktree add -q --detach $WT HEAD || exit 2
cd $WT
res="seed=$D"
git apply "$D/patch.diff" || { echo "$res apply=FAIL"; cd /; git -C /repo worktree remove --force $WT; exit 1; }
go build ./... >/dev/null 2>&1 && res="$res build=ok" || res="$res build=FAIL"
go test -count=1 ./... >/tmp/vs.$$ 2>&1 && res="$res suite=pass" || res="$res suite=FAIL"
for f in "$D"/*_test.go; do cp "$f" "$PKG/"; done
go test -tags verif -count=1 -run 'Seeded|seeded|Demo' ./$PKG/ >/tmp/vs1.$$ 2>&1 && res="$res demo_with=PASS(unexpected)" || res="$res demo_with=fails"
git checkout -q -- . 
go test -tags verif -count=1 -run 'Seeded|seeded|Demo' ./$PKG/ >/tmp/vs2.$$ 2>&1 && res="$res demo_without=passes" || res="$res demo_without=FAILS(unexpected)"
echo "$res"
cd /; git -C /repo worktree remove --force $WT; rm -f /tmp/vs.$$ /tmp/vs1.$$ /tmp/vs2.$$
