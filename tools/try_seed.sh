#!/bin/sh
# usage: tools/try_seed.sh <seed dir with patch.diff> <PROP> [tier]
# Applies a seeded change to /repo, runs the check, reverts the change. Never commits anything in /repo.
set -u
D="$(cd "$1" && pwd)"; P="$2"; T="${3:-quick}"
cd /repo || exit 2
if ! git diff --quiet; then echo "/repo has uncommitted changes"; exit 2; fi
if ! git apply --check "$D/patch.diff" 2>/dev/null; then echo "patch does not apply: $D"; exit 2; fi
git apply "$D/patch.diff"
cd /verif
timeout 1200 ./check "$P" --tier "$T" > /tmp/try_seed.out 2>&1
rc=$?
git -C /repo checkout -- .
git -C /repo clean -fdq -- . 2>/dev/null
echo "seed=$D prop=$P tier=$T rc=$rc"
grep -E "^PASS|^FAIL|INFRASTRUCTURE" /tmp/try_seed.out | head -2; echo "  violations: $(grep -c "^VIOLATION" /tmp/try_seed.out)"
grep "violation detail" /tmp/try_seed.out | head -1 | cut -c1-260
exit $rc
