#!/bin/bash
# ad-hoc: build the driver from /repo (or $VERIF_REPO) into a scratch dir and run it with the given arguments
set -e
export GOFLAGS=-mod=mod GOPROXY=off GOSUMDB=off GOTOOLCHAIN=local
REPO=${VERIF_REPO:-/repo}
S=${DRV_SCRATCH:-/tmp/drv-adhoc}
rm -rf $S/src; mkdir -p $S/src
cp -r /verif/harness/cmd $S/src/
printf 'module verifharness\n\ngo 1.19\n\nrequire github.com/SAP/go-dblib v0.0.0\n\nreplace github.com/SAP/go-dblib => %s\n' $REPO > $S/src/go.mod
cp $REPO/go.sum $S/src/go.sum
(cd $S/src && go build -tags verif -o $S/drv ./cmd/drv)
exec $S/drv "$@"
