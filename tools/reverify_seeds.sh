#!/bin/sh
# usage: tools/reverify_seeds.sh : re-confirms every kept seeded change against /repo's HEAD (build, suite, demo fails with /
# passes without the change); a change whose demonstration no longer fails was neutralised by a later repair of /repo
cd /verif
: > /tmp/reverify_seeds.log
for d in seeded/C*/; do
  id=$(basename $d)
  pkg=$(python3 -c "
import json,re
m=json.load(open('$d/meta.json'))
x=re.search(r'copy to (\S+?)/ as', m.get('demo',''))
print(x.group(1) if x else 'tds')")
  tmp=/tmp/rv-$id; rm -rf $tmp; mkdir -p $tmp
  cp $d/patch.diff $tmp/; cp $d/seeded_demo_test.go.txt $tmp/seeded_demo_test.go
  timeout 600 tools/verify_seed.sh $tmp $pkg 2>&1 | tail -1 | sed "s|/tmp/rv-||" >> /tmp/reverify_seeds.log
  rm -rf $tmp
done
grep -v "build=ok suite=pass demo_with=fails demo_without=passes" /tmp/reverify_seeds.log
