#!/usr/bin/env python3
"""Binding demonstration (DESIGN.md section 10): for every family record a small trace from the real code,
check that TLC accepts it, then (a) corrupt one recorded field and (b) remove one event and check that TLC
rejects the trace at that place.  Usage: tools/selftest.py  (exit 0 = every corruption was rejected)."""
import json, os, random, sys, copy
sys.path.insert(0, os.path.join(os.path.dirname(os.path.abspath(__file__)), "..", "lib"))
import vlib

# family: (driver args, trace module, cfg, env, event to corrupt, field, how)
def bump(v):
    if isinstance(v, bool): return not v
    if isinstance(v, int): return v + 1
    if isinstance(v, str): return v + "x"
    if isinstance(v, dict): return dict(v, dig=[(v["dig"][0] % 9) + 1] + v["dig"][1:]) if "dig" in v else v
    if isinstance(v, list): return v + [1] if (not v or isinstance(v[0], int)) else v[:-1]
    return v
FAMS = [
 ("pq",    ["pq", "-count", 40], "Trace_PacketQueue", "Trace_PacketQueue.cfg", {}, "Op", "bs", lambda e: e["op"] in ("Bytes","Read") and e["st"]=="ok" and e["n"]>0),
 ("tx",    ["tx", "-count", 30], "Trace_TxPath", "Trace_TxPath.cfg", {}, "Wire", "hlen", lambda e: True),
 ("rx",    ["rx", "-rounds", 10], "Trace_RxPath", "Trace_RxPath.cfg", {"JUDGE":"C02"}, "Recv", "val", lambda e: True),
 ("rx-hook", ["rx", "-rounds", 20], "Trace_RxPath", "Trace_RxPath.cfg", {"JUDGE":"C11"}, "Hook", "msgno", lambda e: True),
 ("login-c09", ["login", "-c09", 6], "Trace_Login", "Trace_Login.cfg", {"JUDGE":"C09"}, "Cipher", "fresh", lambda e: True),
 ("mux",   ["mux", "-rounds", 2], "Trace_Mux", "Trace_Mux.cfg", {}, "Recv", "val", lambda e: True),
 ("life",  ["life", "-count", 25], "Trace_Life", "Trace_Life.cfg", {}, "CallEnd", "outcome", lambda e: e["outcome"]=="pkg"),
 ("np",    ["np", "-rounds", 2, "-iters", 20], "Trace_NamePool", "Trace_NamePool.cfg", {}, "AcqEnd", "textok", lambda e: True),
 ("cap",   ["cap", "-count", 50], "Trace_Capability", "Trace_Capability.cfg", {}, "Eval", "has", lambda e: not e["err"] and len(e["has"])>0),
 ("iso",   ["iso"], "Trace_Isolation", "Trace_Isolation.cfg", {}, "Call", "out", lambda e: e["fn"]=="FromGo" and e["arg"]=="1"),
 ("dec",   ["dec", "-per", 1], "Trace_Decimal", "Trace_Decimal.cfg", {}, "Fmt", "text", lambda e: True),
 ("dsn",   ["dsn", "-count", 30, "-maxlen", 2], "Trace_Dsn", "Trace_Dsn.cfg", {}, "RT", "out", lambda e: True),
 ("wire",  ["wire", "-count", 2], "Trace_Wire", "Trace_Wire.cfg", {"JUDGE":"C06"}, "Pkg", "wbytes", lambda e: e["w"]=="ok"),
 ("term",  ["term", "-maxlen", 3, "-count", 50], "Trace_TermSplit", "Trace_TermSplit.cfg", {}, "Split", "queries", lambda e: len(e["queries"])>0 and len(e["queries"][0])>0),
 ("ver",   ["ver", "-count", 50], "Trace_TdsVersion", "Trace_TdsVersion.cfg", {}, "Cmp", "out", lambda e: True),
 ("dt-c05", ["dt"], "Trace_DataTypes", "Trace_DataTypes.cfg", {"JUDGE":"C05"}, "RT", "b", lambda e: len(e["b"])>0 and e["t"] in ("INT8","MONEY","DATETIME","BIGDATETIMEN","NUMN","FLT8")),
 ("dt-c04", ["dt"], "Trace_DataTypes", "Trace_DataTypes.cfg", {"JUDGE":"C04"}, "Pkg", "v2", lambda e: e["v2"].get("k")=="int"),
 ("dt-cal", ["dt"], "Trace_DataTypes", "Trace_DataTypes.cfg", {"JUDGE":"C05"}, "Cal", "b", lambda e: True),
]

def main():
    ctx = vlib.Ctx("selftest")
    rnd = random.Random(7)
    ok = True
    rows = []
    try:
        for (name, args, mod, cfg, env, evname, field, pred) in FAMS:
            ctx.prop = "C13" if name == "life" else "selftest"      # the acknowledged known findings of C13 apply
            t = os.path.join(ctx.scratch, "st-%s.ndjson" % name)
            ctx.run_driver(args + ["-out", t], race=False)
            lines = [l for l in open(t).read().splitlines() if l.strip()]
            acc, rej = ctx.validate("", mod, cfg, t, shards=1, label="selftest %s original" % name, extra_env=env, stack="64m")
            base_ok = not rej
            ctx.violations.clear()
            cands = [i for i, l in enumerate(lines) if json.loads(l)["ev"] == evname and pred(json.loads(l))]
            res = {"family": name, "original_accepted": base_ok, "corrupt_rejected": None, "removed_rejected": None}
            if cands:
                i = rnd.choice(cands[:max(1, len(cands) // 2)])
                e = json.loads(lines[i]); e[field] = bump(e[field])
                t2 = t + ".corrupt"
                open(t2, "w").write("\n".join(lines[:i] + [json.dumps(e)] + lines[i+1:]) + "\n")
                _, rej = ctx.validate("", mod, cfg, t2, shards=1, label="selftest %s corrupted %s.%s" % (name, evname, field), extra_env=env, stack="64m")
                res["corrupt_rejected"] = bool(rej)
                ctx.violations.clear()
                if name in ("pq", "tx", "rx", "mux", "life", "np"):
                    # remove one event: the sequence no longer explains itself
                    t3 = t + ".removed"
                    open(t3, "w").write("\n".join(lines[:i] + lines[i+1:]) + "\n")
                    _, rej = ctx.validate("", mod, cfg, t3, shards=1, label="selftest %s removed one %s" % (name, evname), extra_env=env, stack="64m")
                    res["removed_rejected"] = bool(rej)
                    ctx.violations.clear()
            rows.append(res)
            if not base_ok or res["corrupt_rejected"] is False:
                ok = False
    finally:
        ctx.cleanup()
    for r in rows:
        print(json.dumps(r))
    import glob
    for f in glob.glob(os.path.join(vlib.VERIF, "replays", "selftest-*")) + glob.glob(os.path.join(vlib.VERIF, "replays", "C13-*")):
        os.unlink(f)
    sys.exit(0 if ok else 1)

main()
