#!/bin/sh
# usage: tools/try_seed_wt.sh <seed dir with patch.diff> <PROP> [tier]
# Like try_seed.sh, but leaves /repo alone: the change is applied in a scratch worktree of /repo's HEAD and the
# check is pointed at it with VERIF_REPO, so that several changes can be tried at the same time.
set -u
D="$(cd "$1" && pwd)"; P="$2"; T="${3:-quick}"
WT=/tmp/wt-seed-$$
OUT=/tmp/try_seed_wt.$$.out
git -C /repo worktree add -q --detach "$WT" HEAD || exit 2
if ! git -C "$WT" apply "$D/patch.diff" 2>/dev/null; then
  echo "seed=$D prop=$P patch does not apply"; git -C /repo worktree remove --force "$WT"; exit 2
fi
cd /verif
VERIF_REPO="$WT" timeout 1500 ./check "$P" --tier "$T" > "$OUT" 2>&1
rc=$?
git -C /repo worktree remove --force "$WT"
echo "seed=$(basename "$D") prop=$P tier=$T rc=$rc $(grep -E '^PASS|^FAIL|INFRASTRUCTURE' "$OUT" | head -1 | cut -c1-120) violations=$(grep -c '^VIOLATION' "$OUT")"
rm -f "$OUT"
exit $rc
